(* Proofs/TakeG.v — take on the REAL getitem path: `x[(slice(None),) * axis + (indices, ...)]` with
   COO.__getitem__ as transcribed and proved by property C02 (Model/CooIndex.v, coo_getitem_den /
   coo_getitem_one_array_partial).  What is proved here: NumPy's meaning of that particular index
   (Spec/NpIndex.np_index) is np.take's (Spec/NpJoin.np_take_int / np_take_list); C02's theorems then
   give shape, fill, canonical form and dense meaning of the result. *)
From Coq Require Import ZArith List Bool Lia Sorting.Sorted.
From Verif Require Import Py PyExt Shape COO COOP PySlice NpIndex CooIndex CooIndexMaskP CooIndexNormP CooIndexP CooIndexArrP
                          NpJoin G_join S_join Join Extract JoinP ExtractP.
Import ListNotations.
Open Scope Z_scope.

(* ================================================================ the full slice *)

Definition fsel (d : Z) : list Z := range_list 0 d 1.

Lemma sel_full d : slice_selects None None None d = Some (fsel d).
Proof. reflexivity. Qed.

Lemma fsel_len d : 0 <= d -> Z.of_nat (length (fsel d)) = d.
Proof.
  intros Hd. unfold fsel. rewrite len_range_list by lia. unfold range_len.
  destruct (Z.ltb_spec 0 1); [|lia]. destruct (Z.ltb_spec 0 d); [|lia].
  replace (d - 0 - 1) with (d - 1) by lia. rewrite Z.div_1_r. lia.
Qed.

Lemma fsel_zat d j : 0 <= j < d -> zat (fsel d) j = j.
Proof.
  intros Hj. unfold fsel. rewrite zat_range_list; [lia|lia|]. fold (fsel d). rewrite fsel_len; lia.
Qed.

Lemma resolve1_full d : resolve1 d full_slice = Ok (RSel (fsel d)).
Proof. reflexivity. Qed.

(* ================================================================ expand / resolve / broadcast of the take index *)

Definition take_ix (k : nat) (e : ientry) : index := repeat full_slice k ++ [e; IEllipsis].

Lemma countb_repeat_ell k : countb is_ell (repeat full_slice k) = 0.
Proof. induction k as [|k IH]; [reflexivity|]. cbn [repeat]. rewrite countb_cons, IH. reflexivity. Qed.

Lemma subst_take (fill : list ientry) k e :
  is_ell e = false -> subst_ellipsis fill (repeat full_slice k ++ [e; IEllipsis]) = repeat full_slice k ++ e :: fill.
Proof.
  intros He. induction k as [|k IH]; cbn [repeat app subst_ellipsis full_slice].
  - destruct e; try discriminate; cbn [subst_ellipsis]; rewrite app_nil_r; reflexivity.
  - rewrite IH. reflexivity.
Qed.

Lemma expand_take (n k : nat) e :
  is_ell e = false -> consumes e = true -> (k < n)%nat ->
  expand (Z.of_nat n) (take_ix k e) = Ok (repeat full_slice k ++ e :: repeat full_slice (n - k - 1)).
Proof.
  intros He Hc Hk. unfold expand, take_ix.
  assert (E1 : countb is_ell (repeat full_slice k ++ [e; IEllipsis]) = 1).
  { rewrite countb_app, countb_repeat_ell, !countb_cons, He. reflexivity. }
  assert (E2 : countb consumes (repeat full_slice k ++ [e; IEllipsis]) = Z.of_nat k + 1).
  { rewrite countb_app, (proj1 (countb_repeat_full k)), !countb_cons, Hc. cbn. lia. }
  rewrite E1, E2. cbn [Z.ltb Z.compare Pos.compare Pos.compare_cont].
  destruct (Z.ltb_spec (Z.of_nat n - (Z.of_nat k + 1)) 0); [lia|].
  replace (Z.to_nat (Z.of_nat n - (Z.of_nat k + 1))) with (n - k - 1)%nat by lia.
  rewrite subst_take by exact He. reflexivity.
Qed.

Lemma resolve_fulls : forall post, resolve post (repeat full_slice (length post)) = Ok (map (fun d => RSel (fsel d)) post).
Proof.
  induction post as [|d post IH]; [reflexivity|].
  cbn [length repeat resolve full_slice]. fold full_slice. rewrite resolve1_full. cbn [bind]. rewrite IH. reflexivity.
Qed.

Lemma resolve_take : forall (pre : shape) (d : Z) (post : shape) (e : ientry) (re : rentry),
  is_new e = false -> resolve1 d e = Ok re ->
  resolve (pre ++ d :: post) (repeat full_slice (length pre) ++ e :: repeat full_slice (length post))
  = Ok (map (fun d => RSel (fsel d)) pre ++ re :: map (fun d => RSel (fsel d)) post).
Proof.
  induction pre as [|p pre IH]; intros d post e re Hn He.
  - cbn [length repeat app map]. destruct e; try discriminate; cbn [resolve]; rewrite He; cbn [bind];
      rewrite resolve_fulls; reflexivity.
  - cbn [length repeat app map resolve full_slice]. fold full_slice. rewrite resolve1_full. cbn [bind].
    rewrite (IH d post e re Hn He). reflexivity.
Qed.

Definition sels (l : shape) : list rentry := map (fun d => RSel (fsel d)) l.

Lemma adv_lens_sels l rest : adv_lens (sels l ++ rest) = adv_lens rest.
Proof. induction l as [|d l IH]; [reflexivity|]. exact IH. Qed.

Lemma stretch_sels n l : map (stretch n) (sels l) = sels l.
Proof. induction l as [|d l IH]; [reflexivity|]. cbn [sels map stretch]. f_equal. exact IH. Qed.

Lemma broadcast_int pre i post : broadcast (sels pre ++ RInt i :: sels post) = Ok (sels pre ++ RInt i :: sels post).
Proof.
  unfold broadcast. rewrite adv_lens_sels. cbn [adv_lens flat_map app]. rewrite <- (app_nil_r (sels post)), adv_lens_sels.
  cbn. rewrite map_app, stretch_sels. cbn [map stretch]. rewrite app_nil_r, stretch_sels. reflexivity.
Qed.

Lemma broadcast_adv pre (l : list Z) post :
  broadcast (sels pre ++ RAdv l :: sels post) = Ok (sels pre ++ RAdv l :: sels post).
Proof.
  unfold broadcast. rewrite adv_lens_sels. cbn [adv_lens flat_map app]. rewrite <- (app_nil_r (sels post)), adv_lens_sels.
  cbn [adv_lens flat_map app]. unfold bcast_len. cbn [fold_right forallb].
  set (m := Z.of_nat (length l)).
  assert (E : (if m =? 1 then 1 else m) = m) by (destruct (Z.eqb_spec m 1); lia).
  rewrite E, Z.eqb_refl. cbn [orb andb bind].
  rewrite map_app, stretch_sels. cbn [map]. rewrite app_nil_r, stretch_sels. f_equal. f_equal. f_equal.
  destruct l as [|v [|w t]]; reflexivity.
Qed.

(* ================================================================ result shape and source index *)

Lemma out_shape_sels b l rest : shape_ok l -> out_shape_aux b (sels l ++ rest) = l ++ out_shape_aux b rest.
Proof.
  induction 1 as [|d l Hd _ IH]; [reflexivity|]. cbn [sels map app out_shape_aux]. rewrite fsel_len by exact Hd.
  f_equal. exact IH.
Qed.

Lemma src_sels a : forall l jl rest jr, in_range l jl ->
  src_aux a (sels l ++ rest) (jl ++ jr) = jl ++ src_aux a rest jr.
Proof.
  induction l as [|d l IH]; intros [|j jl] rest jr H; simpl in H; try tauto.
  destruct H as [Hj H]. cbn [sels map app src_aux hd tl]. rewrite fsel_zat by exact Hj. f_equal. apply IH. exact H.
Qed.

Lemma src_sels_end a l jl : in_range l jl -> src_aux a (sels l) jl = jl.
Proof.
  intros H. rewrite <- (app_nil_r (sels l)). rewrite <- (app_nil_r jl) at 1.
  rewrite src_sels by exact H. cbn [src_aux]. apply app_nil_r.
Qed.

Lemma out_shape_sels_end b l : shape_ok l -> out_shape_aux b (sels l) = l.
Proof. intros H. rewrite <- (app_nil_r (sels l)), out_shape_sels by exact H. apply app_nil_r. Qed.

Lemma in_range_split : forall s1 s2 j, in_range (s1 ++ s2) j ->
  exists j1 j2, j = j1 ++ j2 /\ in_range s1 j1 /\ in_range s2 j2 /\ length j1 = length s1.
Proof.
  induction s1 as [|d s1 IH]; intros s2 j H.
  - exists [], j. split; [reflexivity|]. split; [exact I|]. split; [exact H|reflexivity].
  - destruct j as [|i j]; simpl in H; [tauto|]. destruct H as [Hi H].
    destruct (IH s2 j H) as [j1 [j2 [-> [H1 [H2 Hl]]]]]. exists (i :: j1), j2.
    split; [reflexivity|]. split; [simpl; split; assumption|]. split; [exact H2|simpl; f_equal; exact Hl].
Qed.

Lemma ins_app (j1 j2 : list Z) v : ins (length j1) v (j1 ++ j2) = j1 ++ v :: j2.
Proof. induction j1 as [|x j1 IH]; [reflexivity|]. simpl. f_equal. exact IH. Qed.

Lemma upd_app (j1 : list Z) q (j2 : list Z) f : upd (length j1) f (j1 ++ q :: j2) = j1 ++ f q :: j2.
Proof. induction j1 as [|x j1 IH]; [reflexivity|]. simpl. f_equal. exact IH. Qed.

Lemma del_app (s1 : list Z) d (s2 : list Z) : del (length s1) (s1 ++ d :: s2) = s1 ++ s2.
Proof. induction s1 as [|x s1 IH]; [reflexivity|]. simpl. f_equal. exact IH. Qed.

Lemma nth_app_mid (s1 : list Z) d (s2 : list Z) : nth (length s1) (s1 ++ d :: s2) 0 = d.
Proof. induction s1 as [|x s1 IH]; [reflexivity|]. simpl. exact IH. Qed.

Lemma split_at (k : nat) (sh : shape) : (k < length sh)%nat ->
  exists pre d post, sh = pre ++ d :: post /\ length pre = k.
Proof.
  intros Hk. exists (firstn k sh), (nth k sh 0), (skipn (S k) sh). split.
  - rewrite <- (firstn_skipn k sh) at 1. f_equal.
    revert k Hk. induction sh as [|x sh IH]; intros [|k] Hk; simpl in *; try lia; [reflexivity|]. apply IH. lia.
  - apply firstn_length_le. lia.
Qed.

(* ================================================================ np_index of the take index *)

Lemma np_index_take_int (pre : shape) d (post : shape) i :
  shape_ok (pre ++ d :: post) -> in_bounds d i = true ->
  exists g, np_index (pre ++ d :: post) (take_ix (length pre) (IInt i)) = Ok (pre ++ post, g)
            /\ forall j, in_range (pre ++ post) j -> g j = ins (length pre) (NpIndex.wrap d i) j.
Proof.
  intros Hok Hb. unfold np_index.
  rewrite (expand_take (length (pre ++ d :: post)) (length pre) (IInt i) eq_refl eq_refl)
    by (rewrite app_length; simpl; lia).
  cbn [bind]. replace (length (pre ++ d :: post) - length pre - 1)%nat with (length post) by (rewrite app_length; simpl; lia).
  rewrite (resolve_take pre d post (IInt i) (RInt (NpIndex.wrap d i)) eq_refl) by (cbn [resolve1]; rewrite Hb; reflexivity).
  cbn [bind]. fold (sels pre) (sels post). rewrite broadcast_int. cbn [bind].
  apply Forall_app in Hok. destruct Hok as [Hpre Hpost]. inversion Hpost as [|? ? Hd Hpost']; subst.
  exists (src_of (sels pre ++ RInt (NpIndex.wrap d i) :: sels post)). split.
  - unfold out_shape. rewrite out_shape_sels by exact Hpre. cbn [out_shape_aux].
    rewrite out_shape_sels_end by exact Hpost'. reflexivity.
  - intros j Hj. destruct (in_range_split pre post j Hj) as [j1 [j2 [-> [H1 [H2 Hl]]]]].
    unfold src_of. rewrite src_sels by exact H1. cbn [src_aux].
    rewrite src_sels_end by exact H2. rewrite <- Hl, ins_app. reflexivity.
Qed.

Lemma np_index_take_list (pre : shape) d (post : shape) (l : list Z) :
  shape_ok (pre ++ d :: post) -> forallb (in_bounds d) l = true ->
  exists g, np_index (pre ++ d :: post) (take_ix (length pre) (IArr l)) = Ok (pre ++ Z.of_nat (length l) :: post, g)
            /\ forall j, in_range (pre ++ Z.of_nat (length l) :: post) j ->
                 g j = upd (length pre) (fun q => NpIndex.wrap d (nth (Z.to_nat q) l 0)) j.
Proof.
  intros Hok Hb. unfold np_index.
  rewrite (expand_take (length (pre ++ d :: post)) (length pre) (IArr l) eq_refl eq_refl)
    by (rewrite app_length; simpl; lia).
  cbn [bind]. replace (length (pre ++ d :: post) - length pre - 1)%nat with (length post) by (rewrite app_length; simpl; lia).
  rewrite (resolve_take pre d post (IArr l) (RAdv (map (NpIndex.wrap d) l)) eq_refl) by (cbn [resolve1]; rewrite Hb; reflexivity).
  cbn [bind]. fold (sels pre) (sels post). rewrite broadcast_adv. cbn [bind].
  apply Forall_app in Hok. destruct Hok as [Hpre Hpost]. inversion Hpost as [|? ? Hd Hpost']; subst.
  exists (src_of (sels pre ++ RAdv (map (NpIndex.wrap d) l) :: sels post)). split.
  - unfold out_shape. rewrite out_shape_sels by exact Hpre. cbn [out_shape_aux]. rewrite map_length.
    rewrite out_shape_sels_end by exact Hpost'. reflexivity.
  - intros j Hj. destruct (in_range_split pre _ j Hj) as [j1 [j2 [-> [H1 [H2 Hl]]]]].
    destruct j2 as [|q j2]; [simpl in H2; tauto|]. destruct H2 as [Hq H2].
    unfold src_of. rewrite src_sels by exact H1. cbn [src_aux hd tl].
    rewrite src_sels_end by exact H2. rewrite <- Hl, upd_app. f_equal. f_equal.
    unfold zat. change 0 with (NpIndex.wrap d 0) at 1. apply map_nth.
Qed.

(* ================================================================ side conditions of C02's theorems for the take index *)

Lemma nzs_take k e : (match e with ISlice _ _ (Some 0) => false | _ => true end) = true ->
  no_zero_step (take_ix k e) = true.
Proof.
  intros He. unfold no_zero_step, take_ix. rewrite forallb_app. apply andb_true_iff. split.
  - apply forallb_forall. intros x Hx. apply repeat_spec in Hx. subst. reflexivity.
  - cbn [forallb]. rewrite He. reflexivity.
Qed.

Lemma basic_take_int k i : basic (take_ix k (IInt i)) = true.
Proof.
  unfold basic, take_ix. rewrite forallb_app. apply andb_true_iff. split; [|reflexivity].
  apply forallb_forall. intros x Hx. apply repeat_spec in Hx. subst. reflexivity.
Qed.

Lemma countb_repeat_arr k : countb is_iarr (repeat full_slice k) = 0.
Proof. induction k as [|k IH]; [reflexivity|]. cbn [repeat]. rewrite countb_cons, IH. reflexivity. Qed.

Lemma one_array_take k l : one_array (take_ix k (IArr l)) = true.
Proof. unfold one_array, take_ix. rewrite countb_app, countb_repeat_arr, !countb_cons. reflexivity. Qed.

Lemma bool_ok_no_barr : forall ex sh, forallb (fun e => match e with IBArr _ => false | _ => true end) ex = true ->
  bool_ok ex sh = true.
Proof.
  induction ex as [|e ex IH]; intros sh H; [reflexivity|]. cbn [forallb] in H. apply andb_true_iff in H. destruct H as [He H].
  destruct e; try discriminate; cbn [bool_ok]; try (apply IH; exact H);
    destruct sh as [|d sh']; try reflexivity; cbn [andb]; apply IH; exact H.
Qed.

Lemma d29_take (sh : shape) k l : (k < length sh)%nat -> d29_clause sh (take_ix k (IArr l)) = true.
Proof.
  intros Hk. unfold d29_clause. rewrite (expand_take (length sh) k (IArr l) eq_refl eq_refl Hk).
  apply bool_ok_no_barr. rewrite forallb_app. apply andb_true_iff. split.
  - apply forallb_forall. intros x Hx. apply repeat_spec in Hx. subst. reflexivity.
  - cbn [forallb]. apply forallb_forall. intros x Hx. apply repeat_spec in Hx. subst. reflexivity.
Qed.

Lemma shape_okb_of sh : shape_ok sh -> CooIndexNormP.shape_okb sh = true.
Proof.
  intros H. unfold CooIndexNormP.shape_okb. apply forallb_forall. intros d Hd.
  unfold shape_ok in H. rewrite Forall_forall in H. apply Z.leb_le. auto.
Qed.

(* ================================================================ take on the real getitem path *)

Section TakeReal.
  Variable V : Type.
  Notation coo := (coo V).

  Definition take_result (y x : coo) (spec : darr V) : Prop :=
    canonical V y /\ c_shape y = da_shape spec /\ c_fill y = c_fill x /\
    forall ix, in_range (c_shape y) ix -> den y ix = da_f spec ix.

  Theorem take_int_getitem_proof (kf : nat -> nat) (x : coo) (i axis : Z) (k : nat) :
    cwf V x -> np_norm_axis axis (ndim_of V x) = Some k ->
    - nth k (c_shape x) 0 <= i < nth k (c_shape x) 0 ->
    match coo_take_getitem V kf x (IInt i) axis with
    | Ok (GArr y) => take_result y x (np_take_int k i (darr_of_coo x))
    | Ok (GScalar v) => length (c_shape x) = 1%nat /\ v = den x [NpJoin.wrap (nth k (c_shape x) 0) i]
    | Raise _ => False
    end.
  Proof.
    intros [Hcan Hok] Hax Hi.
    destruct (norm_axis_spec (fun n => Ok n) axis _ _ k eq_refl Hax) as [Hnorm Hklt].
    assert (Hk : (k < length (c_shape x))%nat) by (unfold ndim_of in Hklt; lia).
    unfold coo_take_getitem. rewrite Hnorm. cbn [bind]. rewrite Nat2Z.id.
    change (take_index k (IInt i)) with (take_ix k (IInt i)).
    destruct (split_at k (c_shape x) Hk) as [pre [d [post [Esh Hlen]]]].
    assert (Ed : nth k (c_shape x) 0 = d) by (rewrite Esh, <- Hlen; apply nth_app_mid).
    rewrite Ed in Hi.
    assert (Hb : in_bounds d i = true).
    { unfold in_bounds. apply andb_true_iff. split; [apply Z.leb_le|apply Z.ltb_lt]; lia. }
    pose proof (coo_getitem_basic_proof V kf x (take_ix k (IInt i)) Hcan (shape_okb_of _ Hok)
                  (nzs_take k (IInt i) eq_refl) (basic_take_int k i)) as H.
    rewrite Esh in Hok.
    destruct (np_index_take_int pre d post i Hok Hb) as [g [Enp Hg]].
    rewrite Hlen in Enp, Hg. rewrite <- Esh in Enp. rewrite Enp in H.
    destruct (getitem kf x (take_ix k (IInt i))) as [[v|y]|e]; [| |exact H].
    - destruct H as [Hnil Hv]. apply app_eq_nil in Hnil. destruct Hnil as [-> ->].
      simpl in Hlen. subst k. split; [rewrite Esh; reflexivity|].
      rewrite Hv, (Hg [] I), Ed. reflexivity.
    - destruct H as [Hsy [Hfy [Hcy Hdy]]]. unfold take_result. split; [exact Hcy|].
      cbn [np_take_int da_shape da_f darr_of_coo]. split; [rewrite Hsy, Esh, <- Hlen, del_app; reflexivity|].
      split; [exact Hfy|]. intros ix Hix. rewrite Hsy in Hix. rewrite (Hdy ix Hix), (Hg ix Hix), Ed. reflexivity.
  Qed.

  Theorem take_list_getitem_proof (kf : nat -> nat) (x : coo) (l : list Z) (axis : Z) (k : nat) :
    cwf V x -> np_norm_axis axis (ndim_of V x) = Some k ->
    Forall (fun i => - nth k (c_shape x) 0 <= i < nth k (c_shape x) 0) l ->
    match coo_take_getitem V kf x (IArr l) axis with
    | Ok (GArr y) => take_result y x (np_take_list k l (darr_of_coo x))
    | _ => False
    end.
  Proof.
    intros [Hcan Hok] Hax Hi.
    destruct (norm_axis_spec (fun n => Ok n) axis _ _ k eq_refl Hax) as [Hnorm Hklt].
    assert (Hk : (k < length (c_shape x))%nat) by (unfold ndim_of in Hklt; lia).
    unfold coo_take_getitem. rewrite Hnorm. cbn [bind]. rewrite Nat2Z.id.
    change (take_index k (IArr l)) with (take_ix k (IArr l)).
    destruct (split_at k (c_shape x) Hk) as [pre [d [post [Esh Hlen]]]].
    assert (Ed : nth k (c_shape x) 0 = d) by (rewrite Esh, <- Hlen; apply nth_app_mid).
    rewrite Ed in Hi.
    assert (Hb : forallb (in_bounds d) l = true).
    { apply forallb_forall. intros i Hin. rewrite Forall_forall in Hi. specialize (Hi _ Hin).
      unfold in_bounds. apply andb_true_iff. split; [apply Z.leb_le|apply Z.ltb_lt]; lia. }
    pose proof (coo_getitem_one_array_proof V kf x (take_ix k (IArr l)) Hcan (shape_okb_of _ Hok)
                  (nzs_take k (IArr l) eq_refl) (one_array_take k l) (d29_take _ k l Hk)) as H.
    rewrite Esh in Hok.
    destruct (np_index_take_list pre d post l Hok Hb) as [g [Enp Hg]].
    rewrite Hlen in Enp, Hg. rewrite <- Esh in Enp. rewrite Enp in H.
    destruct (getitem kf x (take_ix k (IArr l))) as [[v|y]|e]; [| |exact H].
    - destruct H as [Hnil _]. destruct pre; discriminate.
    - destruct H as [Hsy [Hfy [Hcy Hdy]]]. unfold take_result. split; [exact Hcy|].
      cbn [np_take_list da_shape da_f darr_of_coo]. split; [rewrite Hsy, Esh, <- Hlen, upd_app; reflexivity|].
      split; [exact Hfy|]. intros ix Hix. rewrite Hsy in Hix. rewrite (Hdy ix Hix), (Hg ix Hix), Ed. reflexivity.
  Qed.
End TakeReal.
