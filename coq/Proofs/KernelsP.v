(* Proofs/KernelsP.v — termination (explicit fuel bounds, by decreasing measures), memory safety
   (no OutOfBounds) and the refutations for the kernels of Model/Kernels.v. *)
From Coq Require Import ZArith List Bool Lia ZifyBool QArith.
From Verif Require Import Py PyExt PyValid S_validators Kernels.
Open Scope Z_scope.
Import ListNotations.
Open Scope Z_scope.

(* ================================================================= checked accesses *)
Lemma zlen_nonneg {A} (l : list A) : 0 <= zlen l.
Proof. unfold zlen. lia. Qed.

Lemma zlen_cons {A} (x : A) l : zlen (x :: l) = zlen l + 1.
Proof. unfold zlen. cbn [length]. lia. Qed.

Lemma zlen_app {A} (l1 l2 : list A) : zlen (l1 ++ l2) = zlen l1 + zlen l2.
Proof. unfold zlen. rewrite app_length. lia. Qed.

Lemma rd_cases {A} (l : list A) i : (exists v, rd l i = Done v) \/ rd l i = OutOfBounds.
Proof.
  unfold rd. destruct (_ || _); [right; reflexivity|].
  destruct (nth_error _ _); [left; eexists; reflexivity|right; reflexivity].
Qed.

Lemma rd_ok {A} (l : list A) i :
  0 <= i < zlen l -> exists v, rd l i = Done v /\ nth_error l (Z.to_nat i) = Some v.
Proof.
  intros H. unfold rd.
  destruct (Z.ltb_spec i 0); [lia|].
  destruct (Z.ltb_spec i 0); [lia|]. destruct (Z.leb_spec (zlen l) i); [lia|]. cbn.
  destruct (nth_error l (Z.to_nat i)) eqn:E; [eexists; split; reflexivity|].
  apply nth_error_None in E. unfold zlen in *. lia.
Qed.

Lemma rd_last_ok {A} (l : list A) :
  0 < zlen l -> exists v, rd l (-1) = Done v /\ nth_error l (Z.to_nat (zlen l - 1)) = Some v.
Proof.
  intros H. unfold rd. change (-1 <? 0) with true. cbn iota. replace (-1 + zlen l) with (zlen l - 1) by lia.
  destruct (Z.ltb_spec (zlen l - 1) 0); [lia|]. destruct (Z.leb_spec (zlen l) (zlen l - 1)); [lia|]. cbn.
  destruct (nth_error l (Z.to_nat (zlen l - 1))) eqn:E; [eexists; split; reflexivity|].
  apply nth_error_None in E. unfold zlen in *. lia.
Qed.

Lemma rd_Done_nth {A} (l : list A) i v :
  0 <= i -> rd l i = Done v -> i < zlen l /\ nth_error l (Z.to_nat i) = Some v.
Proof.
  intros Hi. unfold rd. destruct (Z.ltb_spec i 0); [lia|].
  destruct (Z.ltb_spec i 0); [lia|]. destruct (Z.leb_spec (zlen l) i); cbn; [discriminate|].
  destruct (nth_error l (Z.to_nat i)); [|discriminate]. intros E; inversion E; subst. split; [lia|reflexivity].
Qed.

Lemma set_nth_length {A} n (l : list A) v : length (set_nth n l v) = length l.
Proof. revert n; induction l as [|x r IH]; intros [|n]; cbn; auto. Qed.

Lemma set_nth_Forall {A} (P : A -> Prop) n l v : Forall P l -> P v -> Forall P (set_nth n l v).
Proof.
  intros H Hv. revert n; induction H as [|x r Hx Hr IH]; intros [|n]; cbn; constructor; auto.
Qed.

Lemma nth_error_Forall {A} (P : A -> Prop) l n v : Forall P l -> nth_error l n = Some v -> P v.
Proof. intros H E. rewrite Forall_forall in H. apply H. eapply nth_error_In; eassumption. Qed.

Lemma upd_ok {A} (l : list A) i (f : A -> kres A) :
  0 <= i < zlen l ->
  exists v, nth_error l (Z.to_nat i) = Some v /\
            upd l i f = (w <~ f v ;; Done (set_nth (Z.to_nat i) l w)).
Proof.
  intros H. unfold upd.
  destruct (Z.ltb_spec i 0); [lia|].
  destruct (Z.ltb_spec i 0); [lia|]. destruct (Z.leb_spec (zlen l) i); [lia|]. cbn.
  destruct (nth_error l (Z.to_nat i)) eqn:E; [eexists; split; reflexivity|].
  apply nth_error_None in E. unfold zlen in *. lia.
Qed.

Lemma wr_last_ok {A} (l : list A) v :
  0 < zlen l -> exists l', wr l (-1) v = Done l' /\ length l' = length l.
Proof.
  intros H. unfold wr, upd. change (-1 <? 0) with true. cbn iota. replace (-1 + zlen l) with (zlen l - 1) by lia.
  destruct (Z.ltb_spec (zlen l - 1) 0); [lia|]. destruct (Z.leb_spec (zlen l) (zlen l - 1)); [lia|]. cbn.
  destruct (nth_error l (Z.to_nat (zlen l - 1))) eqn:E.
  - cbn. eexists; split; [reflexivity|apply set_nth_length].
  - apply nth_error_None in E. unfold zlen in *. lia.
Qed.

Lemma wr_ok {A} (l : list A) i v :
  0 <= i < zlen l -> exists l', wr l i v = Done l' /\ length l' = length l.
Proof.
  intros H. unfold wr. destruct (upd_ok l i (fun _ => Done v) H) as [x [_ ->]]. cbn.
  eexists; split; [reflexivity|apply set_nth_length].
Qed.

Definition mat_ok (R C : Z) (m : list (list Z)) : Prop :=
  zlen m = R /\ Forall (fun r => zlen r = C) m.

Lemma zeros2_ok R C : 0 <= R -> 0 <= C -> mat_ok R C (zeros2 R C).
Proof.
  intros HR HC. unfold mat_ok, zeros2, zlen. rewrite repeat_length. split; [lia|].
  apply Forall_forall. intros x Hx. apply repeat_spec in Hx. subst. rewrite repeat_length. lia.
Qed.

Lemma rd2_ok R C m i j :
  mat_ok R C m -> 0 <= i < R -> 0 <= j < C -> exists v, rd2 m i j = Done v.
Proof.
  intros [HR HC] Hi Hj. unfold rd2.
  destruct (rd_ok m i ltac:(lia)) as [r [-> Hn]]. cbn.
  pose proof (nth_error_Forall _ _ _ _ HC Hn) as Hl. cbn in Hl.
  destruct (rd_ok r j ltac:(lia)) as [v [-> _]]. eexists; reflexivity.
Qed.

Lemma upd2_ok R C m i j f :
  mat_ok R C m -> 0 <= i < R -> 0 <= j < C -> exists m', upd2 m i j f = Done m' /\ mat_ok R C m'.
Proof.
  intros [HR HC] Hi Hj. unfold upd2.
  destruct (upd_ok m i (fun r => upd r j (fun v => Done (f v))) ltac:(lia)) as [r [Hn ->]].
  pose proof (nth_error_Forall _ _ _ _ HC Hn) as Hl. cbn in Hl.
  destruct (upd_ok r j (fun v => Done (f v)) ltac:(lia)) as [v [Hv ->]]. cbn.
  eexists; split; [reflexivity|]. split.
  - unfold zlen in *. rewrite set_nth_length. assumption.
  - apply set_nth_Forall; [assumption|]. unfold zlen in *. rewrite set_nth_length. assumption.
Qed.

Lemma zrange_nil C : C <= 0 -> zrange C = [].
Proof. intros H. unfold zrange. replace (Z.to_nat C) with O by lia. reflexivity. Qed.

Lemma zrange_nonnil C : 0 < C -> zrange C <> [].
Proof.
  intros H. unfold zrange. destruct (Z.to_nat C) eqn:E; [lia|]. cbn. discriminate.
Qed.

Lemma zrange_In n i : In i (zrange n) <-> 0 <= i < n.
Proof.
  unfold zrange. rewrite in_map_iff. split.
  - intros [k [<- Hk]]. apply in_seq in Hk. lia.
  - intros H. exists (Z.to_nat i). split; [lia|]. apply in_seq. lia.
Qed.

Lemma rd2_cases m i j : (exists v, rd2 m i j = Done v) \/ rd2 m i j = OutOfBounds.
Proof.
  unfold rd2. destruct (rd_cases m i) as [[r ->]| ->]; cbn [kbind]; [apply rd_cases|right; reflexivity].
Qed.

Lemma upd_cases {A} (l : list A) i (f : A -> kres A) :
  (forall v, (exists w, f v = Done w) \/ f v = OutOfBounds) ->
  (exists l', upd l i f = Done l') \/ upd l i f = OutOfBounds.
Proof.
  intros Hf. unfold upd. destruct (_ || _); [right; reflexivity|].
  destruct (nth_error _ _) as [v|]; [|right; reflexivity].
  destruct (Hf v) as [[w ->]| ->]; cbn [kbind]; [left; eexists; reflexivity|right; reflexivity].
Qed.

Lemma wr_cases {A} (l : list A) i v : (exists l', wr l i v = Done l') \/ wr l i v = OutOfBounds.
Proof. unfold wr. apply upd_cases. intros x. left. eexists; reflexivity. Qed.

Lemma upd2_cases m i j f : (exists m', upd2 m i j f = Done m') \/ upd2 m i j f = OutOfBounds.
Proof.
  unfold upd2. apply upd_cases. intros r. apply upd_cases. intros v. left. eexists; reflexivity.
Qed.

(* split the checked access at the head of the outermost kbind: Done v | OutOfBounds *)
Ltac kacc :=
  match goal with
  | |- context [kbind (rd ?l ?i) _] =>
    let v := fresh "v" in let E := fresh "E" in
    destruct (rd_cases l i) as [[v E]|E]; rewrite E; cbn [kbind]
  | |- context [kbind (rd2 ?m ?i ?j) _] =>
    let v := fresh "v" in let E := fresh "E" in
    destruct (rd2_cases m i j) as [[v E]|E]; rewrite E; cbn [kbind]
  | |- context [kbind (upd2 ?m ?i ?j ?f) _] =>
    let v := fresh "m" in let E := fresh "E" in
    destruct (upd2_cases m i j f) as [[v E]|E]; rewrite E; cbn [kbind]
  | |- context [kbind (wr ?l ?i ?x) _] =>
    let v := fresh "l" in let E := fresh "E" in
    destruct (wr_cases l i x) as [[v E]|E]; rewrite E; cbn [kbind]
  end.

(* destruct the scrutinee of the outermost kbind *)
Ltac kstep :=
  match goal with
  | |- context [kbind ?m _] =>
    lazymatch m with
    | context [kbind _ _] => fail
    | _ => let E := fresh "E" in destruct m eqn:E; cbn [kbind]
    end
  end.

(* the generated outer-loop tests: `didx1 < len(data1) and out_shape[1] > 0` *)
Lemma dcn_outer_test_val d n C :
  py_true (sv_dcn_outer_test (VInt d) (VInt n) (VInt C)) = (d <? n) && (0 <? C).
Proof.
  unfold sv_dcn_outer_test. cbn. destruct (d <? n); cbn; [|reflexivity]. rewrite Z.gtb_ltb. reflexivity.
Qed.

Lemma dcs_outer_test_val d n C :
  py_true (sv_dcs_outer_test (VInt d) (VInt n) (VInt C)) = (d <? n) && (0 <? C).
Proof.
  unfold sv_dcs_outer_test. cbn. destruct (d <? n); cbn; [|reflexivity]. rewrite Z.gtb_ltb. reflexivity.
Qed.

(* ================================================================= _dot_coo_ndarray *)
Section DotCooNdarrayP.
  Variables (rows cols data : list Z) (arr2 : list (list Z)) (R C : Z).
  Variable F : nat.
  Let n := zlen data.

  (* progress and boundedness of the inner while; never out of fuel when the fuel exceeds the
     distance to the end of data *)
  Lemma dcn_inner_progress fuel oidx1 oidx2 d out :
    0 <= d -> Z.max 0 (n - d) < Z.of_nat fuel ->
    match dcn_inner rows cols data arr2 fuel oidx1 oidx2 d out with
    | Done (d', _) => d <= d' /\ d' <= Z.max d n /\ (d < n -> rd rows d = Done oidx1 -> d < d')
    | OutOfFuel => False
    | _ => True
    end.
  Proof.
    revert d out. induction fuel as [|f IH]; intros d out Hd Hf; [subst n; pose proof (zlen_nonneg data); lia|].
    cbn [dcn_inner]. fold n.
    destruct (Z.ltb_spec d n) as [Hlt|Hge]; [|lia].
    destruct (rd_cases rows d) as [[r Er]|Er]; rewrite Er; cbn [kbind]; [|exact I].
    destruct (Z.eqb_spec r oidx1) as [->|Hne].
    - repeat (kacc; try exact I).
      specialize (IH (d + 1) m ltac:(lia) ltac:(lia)).
      destruct (dcn_inner _ _ _ _ f oidx1 oidx2 (d + 1) m) as [[d' o']| | |]; try exact I; [|exact IH].
      lia.
    - split; [lia|]. split; [lia|]. intros _ E. congruence.
  Qed.

  Lemma dcn_for_progress cs oidx1 dcur d out :
    0 <= dcur -> Z.max 0 (n - dcur) < Z.of_nat F ->
    match dcn_for rows cols data arr2 F cs oidx1 dcur d out with
    | Done (d', _) =>
      (cs = [] -> d' = d) /\
      (cs <> [] -> dcur <= d' /\ d' <= Z.max dcur n /\ (dcur < n -> rd rows dcur = Done oidx1 -> dcur < d'))
    | OutOfFuel => False
    | _ => True
    end.
  Proof.
    intros Hd Hf. revert d out. induction cs as [|c cs IH]; intros d out; cbn [dcn_for].
    - split; [reflexivity|congruence].
    - pose proof (dcn_inner_progress F oidx1 c dcur out Hd Hf) as Hi.
      destruct (dcn_inner _ _ _ _ F oidx1 c dcur out) as [[d1 o1]| | |]; cbn [kbind]; try exact I; [|exact Hi].
      specialize (IH d1 o1).
      destruct (dcn_for _ _ _ _ F cs oidx1 dcur d1 o1) as [[d' o']| | |]; try exact I; [|exact IH].
      destruct IH as [IH1 IH2]. split; [discriminate|]. intros _.
      destruct cs as [|c' cs']; [rewrite (IH1 eq_refl); exact Hi|apply IH2; discriminate].
  Qed.

  Lemma dcn_outer_nofuel fuel d out :
    0 <= d -> Z.max 0 (n - d) < Z.of_nat fuel -> n < Z.of_nat F ->
    dcn_outer rows cols data arr2 C F fuel d out <> OutOfFuel.
  Proof.
    revert d out. induction fuel as [|f IH]; intros d out Hd Hf HF; [lia|].
    cbn [dcn_outer]. fold n. rewrite dcn_outer_test_val.
    destruct (Z.ltb_spec d n) as [Hlt|Hge]; [|discriminate].
    destruct (Z.ltb_spec 0 C) as [HC|HC]; [|discriminate]. cbn [andb].
    destruct (rd_cases rows d) as [[r Er]|Er]; rewrite Er; cbn [kbind]; [|discriminate].
    pose proof (dcn_for_progress (zrange C) r d d out Hd ltac:(lia)) as Hp.
    destruct (dcn_for _ _ _ _ F (zrange C) r d d out) as [[d' o']| | |]; cbn [kbind]; try discriminate; [|contradiction].
    destruct Hp as [_ Hp]. specialize (Hp (zrange_nonnil C HC)). destruct Hp as [H1 [H2 H3]].
    specialize (H3 Hlt Er). apply IH; lia.
  Qed.

  (* for ALL inputs (no hypothesis on the operands): fuel |data| + 1 suffices for every loop.
     The proof goes through the GENERATED loop test: without its `out_shape[1] > 0` conjunct the
     case C <= 0 makes no progress (finding D3, repaired by commit d27a95d). *)
  Theorem dot_coo_ndarray_terminates_proof :
    Z.of_nat F = zlen data + 1 ->
    dot_coo_ndarray rows cols data arr2 R C F <> OutOfFuel.
  Proof.
    intros HF. unfold dot_coo_ndarray.
    pose proof (zlen_nonneg data). apply dcn_outer_nofuel; unfold n; lia.
  Qed.

  (* memory safety *)
  Variable K : Z.
  Hypothesis Hrows : length rows = length data.
  Hypothesis Hcols : length cols = length data.
  Hypothesis Hrows_rng : Forall (fun r => 0 <= r < R) rows.
  Hypothesis Hcols_rng : Forall (fun c => 0 <= c < K) cols.
  Hypothesis Harr2 : mat_ok C K arr2.

  Lemma dcn_inner_in_bounds fuel oidx1 oidx2 d out :
    0 <= d -> 0 <= oidx2 < C -> mat_ok R C out ->
    match dcn_inner rows cols data arr2 fuel oidx1 oidx2 d out with
    | Done (d', out') => d <= d' /\ mat_ok R C out'
    | OutOfBounds => False
    | _ => True
    end.
  Proof.
    revert d out. induction fuel as [|f IH]; intros d out Hd Ho Hm; [exact I|].
    cbn [dcn_inner]. fold n.
    destruct (Z.ltb_spec d n) as [Hlt|Hge]; [|split; [lia|exact Hm]].
    assert (Hdr : 0 <= d < zlen rows) by (unfold zlen in *; subst n; unfold zlen in Hlt; lia).
    assert (Hdc : 0 <= d < zlen cols) by (unfold zlen in *; subst n; unfold zlen in Hlt; lia).
    destruct (rd_ok rows d Hdr) as [r [-> Hnr]]. cbn [kbind].
    pose proof (nth_error_Forall _ _ _ _ Hrows_rng Hnr) as Hr. cbn in Hr.
    destruct (Z.eqb_spec r oidx1) as [<-|Hne]; [|split; [lia|exact Hm]].
    destruct (rd_ok data d ltac:(subst n; lia)) as [dv [-> _]]. cbn [kbind].
    destruct (rd_ok cols d Hdc) as [c [-> Hnc]]. cbn [kbind].
    pose proof (nth_error_Forall _ _ _ _ Hcols_rng Hnc) as Hc. cbn in Hc.
    destruct (rd2_ok C K arr2 oidx2 c Harr2 Ho Hc) as [b ->]. cbn [kbind].
    destruct (upd2_ok R C out r oidx2 (fun v => v + dv * b) Hm Hr Ho) as [out' [-> Hm']]. cbn [kbind].
    specialize (IH (d + 1) out' ltac:(lia) Ho Hm').
    destruct (dcn_inner _ _ _ _ f r oidx2 (d + 1) out') as [[d' o']| | |]; try exact I; [|exact IH].
    split; [lia|apply IH].
  Qed.

  Lemma dcn_for_in_bounds cs oidx1 dcur d out :
    0 <= dcur -> 0 <= d -> Forall (fun c => 0 <= c < C) cs -> mat_ok R C out ->
    match dcn_for rows cols data arr2 F cs oidx1 dcur d out with
    | Done (d', out') => 0 <= d' /\ mat_ok R C out'
    | OutOfBounds => False
    | _ => True
    end.
  Proof.
    intros Hdc Hd Hcs. revert d Hd out. induction Hcs as [|c cs Hc Hcs IH]; intros d Hd out Hm; cbn [dcn_for];
      [split; assumption|].
    pose proof (dcn_inner_in_bounds F oidx1 c dcur out Hdc Hc Hm) as Hi.
    destruct (dcn_inner _ _ _ _ F oidx1 c dcur out) as [[d1 o1]| | |]; cbn [kbind]; try exact I; [|exact Hi].
    apply IH; [lia|apply Hi].
  Qed.

  Lemma dcn_outer_in_bounds fuel d out :
    0 <= d -> mat_ok R C out ->
    dcn_outer rows cols data arr2 C F fuel d out <> OutOfBounds.
  Proof.
    revert d out. induction fuel as [|f IH]; intros d out Hd Hm; [discriminate|].
    cbn [dcn_outer]. fold n. rewrite dcn_outer_test_val.
    destruct (Z.ltb_spec d n) as [Hlt|Hge]; [|discriminate].
    destruct (Z.ltb_spec 0 C) as [HC0|HC0]; [|discriminate]. cbn [andb].
    assert (Hdr : 0 <= d < zlen rows) by (unfold zlen in *; subst n; unfold zlen in Hlt; lia).
    destruct (rd_ok rows d Hdr) as [r [-> Hnr]]. cbn [kbind].
    assert (Hcs : Forall (fun c => 0 <= c < C) (zrange C)).
    { apply Forall_forall. intros x Hx. apply zrange_In in Hx. exact Hx. }
    pose proof (dcn_for_in_bounds (zrange C) r d d out Hd Hd Hcs Hm) as Hf.
    destruct (dcn_for _ _ _ _ F (zrange C) r d d out) as [[d' o']| | |]; cbn [kbind]; try discriminate; [|contradiction].
    apply IH; apply Hf.
  Qed.

  Theorem dot_coo_ndarray_in_bounds_proof :
    0 <= R -> 0 <= C -> dot_coo_ndarray rows cols data arr2 R C F <> OutOfBounds.
  Proof.
    intros HR HC. unfold dot_coo_ndarray. apply dcn_outer_in_bounds; [lia|apply zeros2_ok; assumption].
  Qed.
End DotCooNdarrayP.

(* ================================================================= _dot_coo_ndarray, sparse result *)
Section DotCooNdarraySparseP.
  Variables (rows cols data : list Z) (arr2 : list (list Z)) (C : Z).
  Variable F : nat.
  Let n := zlen data.

  Lemma dcs_inner_progress fuel cr oidx2 cur acc :
    0 <= cur -> Z.max 0 (n - cur) < Z.of_nat fuel ->
    match dcs_inner rows cols data arr2 fuel cr oidx2 cur acc with
    | Done (cur', _) => cur <= cur' /\ cur' <= Z.max cur n /\ (cur < n -> rd rows cur = Done cr -> cur < cur')
    | OutOfFuel => False
    | _ => True
    end.
  Proof.
    revert cur acc. induction fuel as [|f IH]; intros cur acc Hd Hf; [lia|].
    cbn [dcs_inner]. fold n.
    destruct (Z.ltb_spec cur n) as [Hlt|Hge]; [|lia].
    destruct (rd_cases rows cur) as [[r Er]|Er]; rewrite Er; cbn [kbind]; [|exact I].
    destruct (Z.eqb_spec r cr) as [->|Hne].
    - repeat (kacc; try exact I).
      specialize (IH (cur + 1) (acc + v * v1) ltac:(lia) ltac:(lia)).
      destruct (dcs_inner _ _ _ _ f cr oidx2 (cur + 1) _) as [[d' o']| | |]; try exact I; [|exact IH].
      lia.
    - split; [lia|]. split; [lia|]. intros _ E. congruence.
  Qed.

  Lemma dcs_mid_progress fuel cr didx1 cur oidx2 out :
    0 <= didx1 -> Z.max 0 (n - didx1) < Z.of_nat F -> Z.max 0 (C - oidx2) < Z.of_nat fuel ->
    match dcs_mid rows cols data arr2 C F fuel cr didx1 cur oidx2 out with
    | Done (cur', _) =>
      (C <= oidx2 -> cur' = cur) /\
      (oidx2 < C -> didx1 <= cur' /\ cur' <= Z.max didx1 n /\
                    (didx1 < n -> rd rows didx1 = Done cr -> didx1 < cur'))
    | OutOfFuel => False
    | _ => True
    end.
  Proof.
    intros Hd HF. revert cur oidx2 out. induction fuel as [|f IH]; intros cur oidx2 out Hf; [lia|].
    cbn [dcs_mid].
    destruct (Z.ltb_spec oidx2 C) as [Hlt|Hge]; [|split; [reflexivity|lia]].
    pose proof (dcs_inner_progress F cr oidx2 didx1 0 Hd HF) as Hi.
    destruct (dcs_inner _ _ _ _ F cr oidx2 didx1 0) as [[c1 a1]| | |]; cbn [kbind]; try exact I; [|exact Hi].
    specialize (IH c1 (oidx2 + 1) (if a1 =? 0 then out else out ++ [(cr, oidx2, a1)]) ltac:(lia)).
    destruct (dcs_mid _ _ _ _ C F f cr didx1 c1 (oidx2 + 1) _) as [[c' o']| | |]; try exact I; [|exact IH].
    destruct IH as [IH1 IH2]. split; [lia|]. intros _.
    destruct (Z.ltb_spec (oidx2 + 1) C) as [H1|H1]; [apply IH2; assumption|].
    rewrite (IH1 H1). exact Hi.
  Qed.

  Lemma dcs_outer_nofuel fuel d out :
    0 <= d -> Z.max 0 (n - d) < Z.of_nat fuel -> n < Z.of_nat F -> C < Z.of_nat F ->
    dcs_outer rows cols data arr2 C F fuel d out <> OutOfFuel.
  Proof.
    revert d out. induction fuel as [|f IH]; intros d out Hd Hf HF HFC; [lia|].
    cbn [dcs_outer]. fold n. rewrite dcs_outer_test_val.
    destruct (Z.ltb_spec d n) as [Hlt|Hge]; [|discriminate].
    destruct (Z.ltb_spec 0 C) as [HC|HC]; [|discriminate]. cbn [andb].
    destruct (rd_cases rows d) as [[r Er]|Er]; rewrite Er; cbn [kbind]; [|discriminate].
    pose proof (dcs_mid_progress F r d d 0 out Hd ltac:(lia) ltac:(lia)) as Hp.
    destruct (dcs_mid _ _ _ _ C F F r d d 0 out) as [[d' o']| | |]; cbn [kbind]; try discriminate; [|contradiction].
    destruct Hp as [_ Hp]. specialize (Hp HC). destruct Hp as [H1 [H2 H3]].
    specialize (H3 Hlt Er). apply IH; lia.
  Qed.

  Theorem dot_coo_ndarray_sparse_terminates_proof :
    Z.of_nat F = zlen data + Z.max 0 C + 1 ->
    dot_coo_ndarray_sparse rows cols data arr2 C F <> OutOfFuel.
  Proof.
    intros HF. unfold dot_coo_ndarray_sparse.
    pose proof (zlen_nonneg data). apply dcs_outer_nofuel; unfold n; lia.
  Qed.

  Variable K R : Z.
  Hypothesis Hrows : length rows = length data.
  Hypothesis Hcols : length cols = length data.
  Hypothesis Hcols_rng : Forall (fun c => 0 <= c < K) cols.
  Hypothesis Harr2 : mat_ok C K arr2.

  Lemma dcs_inner_in_bounds fuel cr oidx2 cur acc :
    0 <= cur -> 0 <= oidx2 < C ->
    match dcs_inner rows cols data arr2 fuel cr oidx2 cur acc with
    | Done (cur', _) => cur <= cur'
    | OutOfBounds => False
    | _ => True
    end.
  Proof.
    revert cur acc. induction fuel as [|f IH]; intros cur acc Hd Ho; [exact I|].
    cbn [dcs_inner]. fold n.
    destruct (Z.ltb_spec cur n) as [Hlt|Hge]; [|lia].
    assert (Hdr : 0 <= cur < zlen rows) by (unfold zlen in *; subst n; unfold zlen in Hlt; lia).
    assert (Hdc : 0 <= cur < zlen cols) by (unfold zlen in *; subst n; unfold zlen in Hlt; lia).
    destruct (rd_ok rows cur Hdr) as [r [-> Hnr]]. cbn [kbind].
    destruct (Z.eqb_spec r cr) as [<-|Hne]; [|lia].
    destruct (rd_ok data cur ltac:(subst n; lia)) as [dv [-> _]]. cbn [kbind].
    destruct (rd_ok cols cur Hdc) as [c [-> Hnc]]. cbn [kbind].
    pose proof (nth_error_Forall _ _ _ _ Hcols_rng Hnc) as Hc. cbn in Hc.
    destruct (rd2_ok C K arr2 oidx2 c Harr2 Ho Hc) as [b ->]. cbn [kbind].
    specialize (IH (cur + 1) (acc + dv * b) ltac:(lia) Ho).
    destruct (dcs_inner _ _ _ _ f r oidx2 (cur + 1) _) as [[d' o']| | |]; try exact I; [|exact IH].
    lia.
  Qed.

  Lemma dcs_mid_in_bounds fuel cr didx1 cur oidx2 out :
    0 <= didx1 -> 0 <= cur -> 0 <= oidx2 ->
    match dcs_mid rows cols data arr2 C F fuel cr didx1 cur oidx2 out with
    | Done (cur', _) => 0 <= cur'
    | OutOfBounds => False
    | _ => True
    end.
  Proof.
    intros Hd. revert cur oidx2 out. induction fuel as [|f IH]; intros cur oidx2 out Hc Ho; [exact I|].
    cbn [dcs_mid].
    destruct (Z.ltb_spec oidx2 C) as [Hlt|Hge]; [|exact Hc].
    pose proof (dcs_inner_in_bounds F cr oidx2 didx1 0 Hd ltac:(lia)) as Hi.
    destruct (dcs_inner _ _ _ _ F cr oidx2 didx1 0) as [[c1 a1]| | |]; cbn [kbind]; try exact I; [|exact Hi].
    apply IH; lia.
  Qed.

  Lemma dcs_outer_in_bounds fuel d out :
    0 <= d -> dcs_outer rows cols data arr2 C F fuel d out <> OutOfBounds.
  Proof.
    revert d out. induction fuel as [|f IH]; intros d out Hd; [discriminate|].
    cbn [dcs_outer]. fold n. rewrite dcs_outer_test_val.
    destruct (Z.ltb_spec d n) as [Hlt|Hge]; [|discriminate].
    destruct (Z.ltb_spec 0 C) as [HC0|HC0]; [|discriminate]. cbn [andb].
    assert (Hdr : 0 <= d < zlen rows) by (unfold zlen in *; subst n; unfold zlen in Hlt; lia).
    destruct (rd_ok rows d Hdr) as [r [-> Hnr]]. cbn [kbind].
    pose proof (dcs_mid_in_bounds F r d d 0 out Hd Hd ltac:(lia)) as Hm.
    destruct (dcs_mid _ _ _ _ C F F r d d 0 out) as [[d' o']| | |]; cbn [kbind]; try discriminate; [|contradiction].
    apply IH; exact Hm.
  Qed.

  Theorem dot_coo_ndarray_sparse_in_bounds_proof :
    dot_coo_ndarray_sparse rows cols data arr2 C F <> OutOfBounds.
  Proof. unfold dot_coo_ndarray_sparse. apply dcs_outer_in_bounds. lia. Qed.
End DotCooNdarraySparseP.

(* ================================================================= _dot_ndarray_coo (for loops only) *)
Section DotNdarrayCooP.
  Variables (arr1 : list (list Z)) (crow ccol data : list Z) (R C K : Z).
  Hypothesis Hcrow : length crow = length data.
  Hypothesis Hccol : length ccol = length data.
  Hypothesis Hcrow_rng : Forall (fun k => 0 <= k < K) crow.
  Hypothesis Hccol_rng : Forall (fun c => 0 <= c < C) ccol.
  Hypothesis Harr1 : mat_ok R K arr1.

  Lemma dnc_row_ok ds oidx1 out :
    Forall (fun d => 0 <= d < zlen data) ds -> 0 <= oidx1 < R -> mat_ok R C out ->
    exists out', dnc_row arr1 crow ccol data ds oidx1 out = Done out' /\ mat_ok R C out'.
  Proof.
    intros Hds Ho. revert out. induction Hds as [|d ds Hd Hds IH]; intros out Hm; cbn [dnc_row].
    - eexists; split; [reflexivity|assumption].
    - assert (Hdr : 0 <= d < zlen crow) by (unfold zlen in *; lia).
      assert (Hdc : 0 <= d < zlen ccol) by (unfold zlen in *; lia).
      destruct (rd_ok ccol d Hdc) as [c [-> Hnc]]. cbn [kbind].
      pose proof (nth_error_Forall _ _ _ _ Hccol_rng Hnc) as Hc. cbn in Hc.
      destruct (rd_ok crow d Hdr) as [k [-> Hnk]]. cbn [kbind].
      pose proof (nth_error_Forall _ _ _ _ Hcrow_rng Hnk) as Hk. cbn in Hk.
      destruct (rd2_ok R K arr1 oidx1 k Harr1 Ho Hk) as [a ->]. cbn [kbind].
      destruct (rd_ok data d Hd) as [dv [-> _]]. cbn [kbind].
      destruct (upd2_ok R C out oidx1 c (fun v => v + a * dv) Hm Ho Hc) as [out' [-> Hm']]. cbn [kbind].
      apply IH. assumption.
  Qed.

  Lemma dnc_rows_ok rs out :
    Forall (fun r => 0 <= r < R) rs -> mat_ok R C out ->
    exists out', dnc_rows arr1 crow ccol data rs out = Done out' /\ mat_ok R C out'.
  Proof.
    intros Hrs. revert out. induction Hrs as [|r rs Hr Hrs IH]; intros out Hm; cbn [dnc_rows].
    - eexists; split; [reflexivity|assumption].
    - assert (Hds : Forall (fun d => 0 <= d < zlen data) (zrange (zlen data))).
      { apply Forall_forall. intros x Hx. apply zrange_In in Hx. exact Hx. }
      destruct (dnc_row_ok _ r out Hds Hr Hm) as [o1 [-> Hm1]]. cbn [kbind]. apply IH. assumption.
  Qed.

  Theorem dot_ndarray_coo_in_bounds_proof :
    0 <= R -> 0 <= C ->
    exists out, dot_ndarray_coo arr1 crow ccol data R C = Done out /\ mat_ok R C out.
  Proof.
    intros HR HC. unfold dot_ndarray_coo. apply dnc_rows_ok; [|apply zeros2_ok; assumption].
    apply Forall_forall. intros x Hx. apply zrange_In in Hx. exact Hx.
  Qed.
End DotNdarrayCooP.

Section DotNdarrayCooSparseP.
  Variables (arr1 : list (list Z)) (c0 c1 data : list Z) (R K : Z).
  Hypothesis Hc0 : length c0 = length data.
  Hypothesis Hc1 : length c1 = length data.
  Hypothesis Hc1_rng : Forall (fun k => 0 <= k < K) c1.
  Hypothesis Harr1 : mat_ok R K arr1.

  Lemma dncs_row_ok ds oidx1 dc cc out :
    Forall (fun d => 0 <= d < zlen data) ds -> 0 <= oidx1 < R ->
    exists r, dncs_row arr1 c0 c1 data ds oidx1 dc cc out = Done r.
  Proof.
    intros Hds Ho. revert dc cc out. induction Hds as [|d ds Hd Hds IH]; intros dc cc out; cbn [dncs_row].
    - eexists; reflexivity.
    - assert (Hd0 : 0 <= d < zlen c0) by (unfold zlen in *; lia).
      assert (Hd1 : 0 <= d < zlen c1) by (unfold zlen in *; lia).
      destruct (rd_ok c0 d Hd0) as [g [-> _]]. cbn [kbind].
      destruct (if negb (g =? cc) then _ else _) as [[dc' cc'] out1].
      destruct (rd_ok c1 d Hd1) as [k [-> Hnk]]. cbn [kbind].
      pose proof (nth_error_Forall _ _ _ _ Hc1_rng Hnk) as Hk. cbn in Hk.
      destruct (rd2_ok R K arr1 oidx1 k Harr1 Ho Hk) as [a ->]. cbn [kbind].
      destruct (rd_ok data d Hd) as [dv [-> _]]. cbn [kbind]. apply IH.
  Qed.

  Theorem dot_ndarray_coo_sparse_in_bounds_proof :
    exists out, dot_ndarray_coo_sparse arr1 c0 c1 data R = Done out.
  Proof.
    unfold dot_ndarray_coo_sparse.
    assert (Hrs : Forall (fun r => 0 <= r < R) (zrange R)).
    { apply Forall_forall. intros x Hx. apply zrange_In in Hx. exact Hx. }
    generalize (@nil (Z * Z * Z)) as out. induction Hrs as [|r rs Hr Hrs IH]; intros out; cbn [dncs_rows].
    - eexists; reflexivity.
    - assert (Hds : Forall (fun d => 0 <= d < zlen data) (zrange (zlen data))).
      { apply Forall_forall. intros x Hx. apply zrange_In in Hx. exact Hx. }
      destruct (dncs_row_ok _ r 0 0 out Hds Hr) as [[[dc cc] o1] ->]. cbn [kbind]. apply IH.
  Qed.
End DotNdarrayCooSparseP.

(* ================================================================= searchsorted (binary search) *)
Definition znth (l : list Z) (i : Z) : Z := nth (Z.to_nat i) l 0.

Lemma rd_znth l i : 0 <= i < zlen l -> rd l i = Done (znth l i).
Proof.
  intros H. destruct (rd_ok l i H) as [v [-> Hn]]. unfold znth. f_equal. symmetry.
  apply nth_error_nth. assumption.
Qed.

Lemma rd_last_znth l : 0 < zlen l -> rd l (-1) = Done (znth l (zlen l - 1)).
Proof.
  intros H. destruct (rd_last_ok l H) as [v [-> Hn]]. unfold znth. f_equal. symmetry.
  apply nth_error_nth. assumption.
Qed.

Definition sorted_le (l : list Z) : Prop :=
  forall i j, 0 <= i -> i <= j -> j < zlen l -> znth l i <= znth l j.
Definition strict_incr (l : list Z) : Prop :=
  forall i j, 0 <= i -> i < j -> j < zlen l -> znth l i < znth l j.

(* fuel hi - lo + 1 suffices (the true count is logarithmic); every probe is inside [lo, hi) *)
Lemma bsearch_ok right fuel a v lo hi :
  0 <= lo -> hi <= zlen a -> Z.max 0 (hi - lo) < Z.of_nat fuel ->
  exists r, bsearch right fuel a v lo hi = Done r /\ lo <= r /\ r <= Z.max lo hi.
Proof.
  revert lo hi. induction fuel as [|f IH]; intros lo hi Hlo Hhi Hf; [lia|].
  cbn [bsearch]. destruct (Z.ltb_spec lo hi) as [Hlt|Hge]; [|exists lo; split; [reflexivity|lia]].
  assert (Hmid : lo <= (lo + hi) / 2 < hi).
  { split; [apply Z.div_le_lower_bound; lia|apply Z.div_lt_upper_bound; lia]. }
  rewrite (rd_znth a ((lo + hi) / 2)) by lia. cbn [kbind].
  destruct (if right then _ else _).
  - destruct (IH ((lo + hi) / 2 + 1) hi ltac:(lia) Hhi ltac:(lia)) as [r [-> Hr]]. exists r. split; [reflexivity|lia].
  - destruct (IH lo ((lo + hi) / 2) Hlo ltac:(lia) ltac:(lia)) as [r [-> Hr]]. exists r. split; [reflexivity|lia].
Qed.

Theorem searchsorted_terminates_proof :
  forall (right : bool) (a : list Z) (v : Z) (F : nat),
    zlen a < Z.of_nat F ->
    exists r, searchsorted right F a v = Done r /\ 0 <= r <= zlen a.
Proof.
  intros right a v F HF. unfold searchsorted. pose proof (zlen_nonneg a).
  destruct (bsearch_ok right F a v 0 (zlen a) ltac:(lia) ltac:(lia) ltac:(lia)) as [r [-> Hr]].
  exists r. split; [reflexivity|lia].
Qed.

(* on a sorted array everything left of the (side='left') answer is < v *)
Lemma bsearch_left_spec fuel a v lo hi r :
  sorted_le a -> 0 <= lo -> hi <= zlen a ->
  (forall i, 0 <= i < lo -> znth a i < v) ->
  bsearch false fuel a v lo hi = Done r ->
  forall i, 0 <= i < r -> znth a i < v.
Proof.
  intros Hs. revert lo hi. induction fuel as [|f IH]; intros lo hi Hlo Hhi Hinv; [discriminate|].
  cbn [bsearch]. destruct (Z.ltb_spec lo hi) as [Hlt|Hge]; [|intros E; inversion E; subst; assumption].
  assert (Hmid : lo <= (lo + hi) / 2 < hi).
  { split; [apply Z.div_le_lower_bound; lia|apply Z.div_lt_upper_bound; lia]. }
  rewrite (rd_znth a ((lo + hi) / 2)) by lia. cbn [kbind].
  destruct (Z.ltb_spec (znth a ((lo + hi) / 2)) v) as [Hx|Hx].
  - apply IH; [lia|assumption|]. intros i Hi.
    destruct (Z.ltb_spec i lo); [apply Hinv; lia|].
    pose proof (Hs i ((lo + hi) / 2) ltac:(lia) ltac:(lia) ltac:(lia)). lia.
  - apply IH; [lia|lia|assumption].
Qed.

Lemma searchsorted_left_spec F a v r :
  sorted_le a -> searchsorted false F a v = Done r -> forall i, 0 <= i < r -> znth a i < v.
Proof.
  intros Hs E. eapply bsearch_left_spec; [exact Hs| | | |exact E]; [lia|lia|intros; lia].
Qed.

(* ================================================================= get_slicing_selection, one row *)
Lemma zlen_skipn {A} k (l : list A) : 0 <= k <= zlen l -> zlen (skipn (Z.to_nat k) l) = zlen l - k.
Proof. intros H. unfold zlen in *. rewrite skipn_length. lia. Qed.

Lemma nth_skipn_nat {A} (k i : nat) (l : list A) d : nth i (skipn k l) d = nth (k + i) l d.
Proof.
  revert l; induction k as [|k IH]; intros l; [reflexivity|].
  destruct l as [|x l]; [destruct i; reflexivity|]. cbn. apply IH.
Qed.

Lemma znth_skipn k l i : 0 <= k -> 0 <= i -> znth (skipn (Z.to_nat k) l) i = znth l (k + i).
Proof.
  intros Hk Hi. unfold znth. rewrite nth_skipn_nat. f_equal. lia.
Qed.

Lemma sorted_le_skipn k l : 0 <= k <= zlen l -> sorted_le l -> sorted_le (skipn (Z.to_nat k) l).
Proof.
  intros Hk Hs i j Hi Hij Hj. rewrite zlen_skipn in Hj by assumption.
  rewrite !znth_skipn by lia. apply Hs; lia.
Qed.

Section SlicingSelectionP.
  Variables (row col : list Z) (start : Z).
  Variable F : nat.
  Let nr := zlen row.
  Let nc := zlen col.

  Lemma gss_linear_ok fuel count cc out :
    0 <= count -> 0 <= cc -> Z.max 0 (nc - cc) + Z.max 0 (nr - count) < Z.of_nat fuel ->
    exists out', gss_linear row col start fuel count cc out = Done out'.
  Proof.
    revert count cc out. induction fuel as [|f IH]; intros count cc out Hc Hcc Hf; [lia|].
    cbn [gss_linear]. fold nr nc.
    destruct (Z.ltb_spec cc nc) as [H1|H1]; cbn [andb]; [|eexists; reflexivity].
    destruct (Z.ltb_spec count nr) as [H2|H2]; [|eexists; reflexivity].
    rewrite (rd_last_znth row) by (fold nr; lia). cbn [kbind].
    rewrite (rd_znth col cc) by (fold nc; lia). cbn [kbind].
    rewrite (rd_znth row count) by (fold nr; lia).
    rewrite (rd_last_znth col) by (fold nc; lia). cbn [kbind].
    match goal with |- context [if ?c then Done true else _] => destruct c end; cbn [kbind]; [eexists; reflexivity|].
    match goal with |- context [if ?c then Done out else _] => destruct c end; [eexists; reflexivity|].
    destruct (znth row count =? znth col cc); [apply IH; lia|].
    destruct (znth row count <? znth col cc); apply IH; lia.
  Qed.

  Lemma gss_skip_ok fuel size cc :
    0 <= size -> 0 <= cc -> Z.max 0 (nc - cc) < Z.of_nat fuel ->
    exists cc', gss_skip row col fuel size cc = Done cc' /\ cc <= cc' /\ cc' <= Z.max cc nc.
  Proof.
    intros Hs. revert cc. induction fuel as [|f IH]; intros cc Hcc Hf; [lia|].
    cbn [gss_skip]. fold nr nc.
    destruct (Z.ltb_spec cc nc) as [H1|H1]; cbn [andb]; [|exists cc; split; [reflexivity|lia]].
    destruct (Z.ltb_spec size nr) as [H2|H2]; [|exists cc; split; [reflexivity|lia]].
    rewrite (rd_znth col cc) by (fold nc; lia). cbn [kbind].
    rewrite (rd_znth row size) by (fold nr; lia). cbn [kbind].
    destruct (znth col cc <? znth row size); [|exists cc; split; [reflexivity|lia]].
    destruct (IH (cc + 1) ltac:(lia) ltac:(lia)) as [c' [-> Hc']]. exists c'. split; [reflexivity|lia].
  Qed.

  (* guards of the binary-search branch: the row segment is sorted (GCXS invariant), the requested
     columns are strictly increasing (an ascending slice), the branch condition len(row) >= len(col) *)
  Hypothesis Hrow : sorted_le row.
  Hypothesis Hcol : strict_incr col.
  Hypothesis Hsz : nc <= nr.
  Hypothesis HF : nr < Z.of_nat F.

  Definition binv (size cc : Z) : Prop :=
    0 <= size <= nr /\ 0 <= cc /\ (size = nr -> cc < nc -> znth row (nr - 1) < znth col cc).

  Lemma col_mono i j : 0 <= i -> i <= j -> j < nc -> znth col i <= znth col j.
  Proof.
    intros Hi Hij Hj. destruct (Z.eq_dec i j) as [->|Hne]; [lia|].
    pose proof (Hcol i j Hi ltac:(lia) Hj). lia.
  Qed.

  Lemma gss_binary_ok fuel size cc out :
    binv size cc -> Z.max 0 (nc - cc) < Z.of_nat fuel ->
    exists out', gss_binary row col start F fuel size size cc out = Done out'.
  Proof.
    revert size cc out. induction fuel as [|f IH]; intros size cc out [Hsize [Hcc Hinv]] Hf; [lia|].
    cbn [gss_binary]. fold nr nc.
    destruct (Z.ltb_spec cc nc) as [H1|H1]; [|eexists; reflexivity].
    destruct (gss_skip_ok F size cc ltac:(lia) Hcc ltac:(lia)) as [cc' [-> [Hc1 Hc2]]]. cbn [kbind].
    destruct (Z.leb_spec nc cc') as [H2|H2]; [eexists; reflexivity|].
    rewrite (rd_last_znth row) by (fold nr; lia). cbn [kbind].
    rewrite (rd_znth col cc') by (fold nc; lia). cbn [kbind].
    fold nr. destruct (Z.ltb_spec (znth row (nr - 1)) (znth col cc')) as [H3|H3]; cbn [kbind]; [eexists; reflexivity|].
    assert (Hlt : size < nr).
    { destruct (Z.eq_dec size nr) as [E|E]; [|lia].
      specialize (Hinv E H1). pose proof (col_mono cc cc' Hcc Hc1 H2). lia. }
    rewrite (rd_znth row size) by (fold nr; lia).
    rewrite (rd_last_znth col) by (fold nc; lia). cbn [kbind].
    match goal with |- context [if ?c then Done out else _] => destruct c end; [eexists; reflexivity|].
    assert (Hsl : zlen (skipn (Z.to_nat size) row) = nr - size) by (apply zlen_skipn; fold nr; lia).
    destruct (searchsorted_terminates_proof false (skipn (Z.to_nat size) row) (znth col cc') F ltac:(lia))
      as [s0 [Es Hs0]].
    rewrite Es. cbn [kbind].
    assert (Hs0lt : s0 < nr - size).
    { destruct (Z.eq_dec s0 (nr - size)) as [E|E]; [|lia].
      pose proof (searchsorted_left_spec F _ _ _ (sorted_le_skipn size row ltac:(fold nr; lia) Hrow) Es
                    (nr - size - 1) ltac:(lia)) as Hl.
      rewrite znth_skipn in Hl by lia. replace (size + (nr - size - 1)) with (nr - 1) in Hl by lia. lia. }
    destruct (Z.leb_spec nr (s0 + size)) as [H4|H4]; [lia|].
    rewrite (rd_znth row (s0 + size)) by (fold nr; lia). cbn [kbind].
    destruct (Z.eqb_spec (znth row (s0 + size)) (znth col cc')) as [Hx|Hx].
    - apply IH; [|lia]. split; [lia|]. split; [lia|]. intros E Hn.
      replace (nr - 1) with (s0 + size) by lia. rewrite Hx. apply Hcol; lia.
    - apply IH; [|lia]. split; [lia|]. split; [lia|]. intros E. lia.
  Qed.
End SlicingSelectionP.

Theorem slicing_selection_row_safe_proof :
  forall (row col : list Z) (start : Z) (F : nat),
    sorted_le row -> strict_incr col ->
    Z.of_nat F = zlen row + zlen col + 1 ->
    exists out, slicing_selection_row row col start F = Done out.
Proof.
  intros row col start F Hr Hc HF. unfold slicing_selection_row.
  pose proof (zlen_nonneg row). pose proof (zlen_nonneg col).
  destruct (Z.ltb_spec (zlen row) (zlen col)).
  - apply gss_linear_ok; lia.
  - apply gss_binary_ok; try assumption; try lia.
    unfold binv. split; [lia|]. split; [lia|]. intros E Hn. lia.
Qed.

(* the strictness of `col` is needed: with a repeated requested column the kernel reads
   current_row[len(current_row)] (one past the end) *)
Example slicing_selection_row_repeat_out_of_bounds :
  slicing_selection_row [5] [5; 5] 0 4 = Done [(0, 0)] /\
  slicing_selection_row [3; 5] [5; 5] 0 6 = OutOfBounds.
Proof. split; reflexivity. Qed.

(* ================================================================= _match_arrays *)
Section MatchArraysP.
  Variable b : list Z.
  Variable F : nat.
  Let nb := zlen b.

  Lemma ma_inner_ok fuel ia j ib m out :
    0 <= ib -> 0 <= m < nb -> Z.max 0 (nb - ib) < Z.of_nat fuel ->
    exists ib' m' out', ma_inner b fuel ia j ib m out = Done (ib', m', out') /\ ib <= ib' /\ 0 <= m' < nb.
  Proof.
    revert ib m out. induction fuel as [|f IH]; intros ib m out Hib Hm Hf; [lia|].
    cbn [ma_inner]. fold nb.
    destruct (Z.ltb_spec ib nb) as [H1|H1]; [|exists ib, m, out; split; [reflexivity|lia]].
    rewrite (rd_znth b ib) by (fold nb; lia). cbn [kbind].
    destruct (znth b ib <=? j); [|exists ib, m, out; split; [reflexivity|lia]].
    destruct (j =? znth b ib).
    - rewrite (rd_znth b m) by (fold nb; lia). cbn [kbind].
      destruct (znth b m <? znth b ib).
      + destruct (IH (ib + 1) ib (out ++ [(ia, ib)]) ltac:(lia) ltac:(lia) ltac:(lia)) as [i' [m' [o' [-> H]]]].
        exists i', m', o'. split; [reflexivity|lia].
      + destruct (IH (ib + 1) m (out ++ [(ia, ib)]) ltac:(lia) ltac:(lia) ltac:(lia)) as [i' [m' [o' [-> H]]]].
        exists i', m', o'. split; [reflexivity|lia].
    - destruct (IH (ib + 1) m out ltac:(lia) ltac:(lia) ltac:(lia)) as [i' [m' [o' [-> H]]]].
      exists i', m', o'. split; [reflexivity|lia].
  Qed.

  Lemma ma_for_ok a ia ib m out :
    0 <= ib -> 0 <= m < nb -> nb < Z.of_nat F ->
    exists out', ma_for b F a ia ib m out = Done out'.
  Proof.
    intros Hib Hm HF. revert ia ib m out Hib Hm. induction a as [|j a IH]; intros ia ib m out Hib Hm; cbn [ma_for].
    - eexists; reflexivity.
    - rewrite (rd_znth b m) by (fold nb; lia). cbn [kbind].
      destruct (ma_inner_ok F ia j (if j =? znth b m then m else ib) m out
                  ltac:(destruct (j =? znth b m); lia) Hm ltac:(destruct (j =? znth b m); lia))
        as [i' [m' [o' [-> [H1 H2]]]]]. cbn [kbind].
      apply IH; [destruct (j =? znth b m); lia|assumption].
  Qed.
End MatchArraysP.

(* no hypothesis on the inputs (sortedness matters for the RESULT, not for safety); every inner
   while runs at most |b| + 1 times, so the total work is at most |a| * (|b| + 1) *)
Theorem match_arrays_safe_proof :
  forall (a b : list Z) (F : nat),
    Z.of_nat F = zlen b + 1 -> exists out, match_arrays b F a = Done out.
Proof.
  intros a b F HF. unfold match_arrays.
  destruct a as [|x a]; [eexists; reflexivity|]. destruct b as [|y b]; [eexists; reflexivity|].
  pose proof (zlen_nonneg b). rewrite zlen_cons in HF.
  apply ma_for_ok; rewrite ?zlen_cons; lia.
Qed.

(* ================================================================= _compute_mask narrowing loop *)
Lemma zlen_slice_le {A} (l : list A) lo hi : zlen (slice l lo hi) <= zlen l.
Proof.
  unfold slice, zlen. rewrite firstn_length, skipn_length. lia.
Qed.

Section ComputeMaskP.
  Variable F : nat.
  Variable lg : Q -> Q.

  Lemma gmp_matches_ok c lo hi ps acc :
    zlen c < Z.of_nat F -> exists acc', gmp_matches F c lo hi ps acc = Done acc'.
  Proof.
    intros HF. revert acc. induction ps as [|p ps IH]; intros acc; cbn [gmp_matches]; [eexists; reflexivity|].
    pose proof (zlen_slice_le c lo hi).
    destruct (searchsorted_terminates_proof false (slice c lo hi) p F ltac:(lia)) as [a [-> _]]. cbn [kbind].
    destruct (searchsorted_terminates_proof true (slice c lo hi) p F ltac:(lia)) as [z [-> _]]. cbn [kbind].
    apply IH.
  Qed.

  Lemma get_mask_pairs_ok pairs c ps acc :
    zlen c < Z.of_nat F -> exists acc', get_mask_pairs F pairs c ps acc = Done acc'.
  Proof.
    intros HF. revert acc. induction pairs as [|[lo hi] r IH]; intros acc; cbn [get_mask_pairs]; [eexists; reflexivity|].
    destruct (gmp_matches_ok c lo hi ps acc HF) as [a' ->]. cbn [kbind]. apply IH.
  Qed.

  (* the extracted cost test, spelled out over Q *)
  Lemma cm_break_val rlen P M :
    cm_break lg rlen P M =
    negb (Qle_bool (inject_Z (rlen * P + 2) *
                    lg (inject_Z (rlen * P + 2) / (if Qle_bool (inject_Z P) (inject_Z 1) then inject_Z 1 else inject_Z P)))
                   (inject_Z M + inject_Z P))%Q.
  Proof. reflexivity. Qed.

  (* THE WORK BOUND of one narrowing step.  When the cost test lets the step run, the number of requested
     positions times the number of candidate ranges (= the pairs of binary searches the step performs) is
     bounded by the stored elements still in play plus three per range — whatever the extent of the axis
     and the length of the slice.  Uses of lg: only lg x >= 1 for x >= 3. *)
  Hypothesis lg_ge1 : forall x : Q, (3 <= x -> 1 <= lg x)%Q.

  Lemma cm_step_bound rlen P M :
    0 <= rlen -> 0 <= P -> cm_break lg rlen P M = false ->
    rlen * P + 2 <= Z.max 0 M + 3 * Z.max P 1.
  Proof.
    intros Hr HP Hb. rewrite cm_break_val in Hb. apply negb_false_iff in Hb. apply Qle_bool_iff in Hb.
    set (S_ := rlen * P + 2) in *. assert (HS : 2 <= S_) by (unfold S_; nia).
    set (D := if Qle_bool (inject_Z P) (inject_Z 1) then inject_Z 1 else inject_Z P) in *.
    assert (HD : (D == inject_Z (Z.max P 1))%Q).
    { unfold D. destruct (Qle_bool (inject_Z P) (inject_Z 1)) eqn:E.
      - apply Qle_bool_iff in E. rewrite <- Zle_Qle in E. replace (Z.max P 1) with 1 by lia. reflexivity.
      - assert (~ (inject_Z P <= inject_Z 1)%Q) by (intros H; apply Qle_bool_iff in H; congruence).
        rewrite <- Zle_Qle in H. replace (Z.max P 1) with P by lia. reflexivity. }
    assert (HDpos : (0 < D)%Q) by (rewrite HD; change 0%Q with (inject_Z 0); rewrite <- Zlt_Qlt; lia).
    destruct (Qlt_le_dec (inject_Z S_) (3 * D)) as [Hlt|Hge'].
    - (* fewer than three positions per range *)
      rewrite HD in Hlt. change 3%Q with (inject_Z 3) in Hlt. rewrite <- inject_Z_mult in Hlt.
      rewrite <- Zlt_Qlt in Hlt. lia.
    - (* the logarithm is at least 1: the test bounds S itself *)
      assert (Hge : (3 <= inject_Z S_ / D)%Q) by (apply Qle_shift_div_l; assumption).
      pose proof (lg_ge1 _ Hge) as Hl.
      assert (H1 : (inject_Z S_ <= inject_Z M + inject_Z P)%Q).
      { eapply Qle_trans; [|exact Hb]. rewrite <- (Qmult_1_r (inject_Z S_)) at 1.
        apply Qmult_le_l; [change 0%Q with (inject_Z 0); rewrite <- Zlt_Qlt; lia|assumption]. }
      rewrite <- inject_Z_plus, <- Zle_Qle in H1. lia.
  Qed.

  Lemma cm_loop_ok fuel : forall i coords ranges pairs M log,
    Forall (fun c => zlen c < Z.of_nat F) coords -> (length coords < fuel)%nat ->
    Forall (fun t => let '(r, P, M0) := t in r * P + 2 <= Z.max 0 M0 + 3 * Z.max P 1) log ->
    exists r, cm_loop F lg fuel i coords ranges pairs M log = Done r /\
              Forall (fun t => let '(r, P, M0) := t in r * P + 2 <= Z.max 0 M0 + 3 * Z.max P 1) (snd r).
  Proof.
    induction fuel as [|f IH]; intros i coords ranges pairs M log Hc Hf Hl; [lia|].
    cbn [cm_loop]. destruct coords as [|c coords']; [eexists; split; [reflexivity|exact Hl]|].
    destruct ranges as [|ps ranges']; [eexists; split; [reflexivity|exact Hl]|].
    destruct (cm_break lg (zlen ps) (zlen pairs) M) eqn:Eb; [eexists; split; [reflexivity|exact Hl]|].
    pose proof (Forall_inv Hc) as Hc0. pose proof (Forall_inv_tail Hc) as Hc'.
    destruct (get_mask_pairs_ok pairs c ps [] Hc0) as [p' ->]. cbn [kbind].
    apply IH; [assumption|cbn in Hf; lia|].
    apply Forall_app. split; [assumption|]. constructor; [|constructor].
    apply cm_step_bound; [apply zlen_nonneg|apply zlen_nonneg|assumption].
  Qed.
End ComputeMaskP.

(* for EVERY logarithm with lg x >= 1 on x >= 3: the loop runs at most ndim times, each binary search at most
   nnz + 1 probes, and every narrowing step it executes obeys the work bound *)
Theorem compute_mask_narrow_safe_proof :
  forall (lg : Q -> Q) (nnz : Z) (coords ranges : list (list Z)) (F : nat),
    (forall x : Q, (3 <= x -> 1 <= lg x)%Q) ->
    0 <= nnz -> Forall (fun c => zlen c = nnz) coords ->
    Z.of_nat F = nnz + zlen coords + 1 ->
    exists i pairs log, compute_mask_narrow F lg nnz coords ranges = Done (i, pairs, log) /\
      Forall (fun t => let '(r, P, M0) := t in r * P + 2 <= Z.max 0 M0 + 3 * Z.max P 1) log.
Proof.
  intros lg nnz coords ranges F Hlg Hn Hc HF. unfold compute_mask_narrow.
  pose proof (zlen_nonneg coords).
  destruct (cm_loop_ok F lg Hlg F 0 coords ranges [(0, nnz)] nnz []) as [[[i pairs] log] [E Hl]].
  - eapply Forall_impl; [|exact Hc]. cbn. intros a Ha. lia.
  - unfold zlen in *. lia.
  - constructor.
  - exists i, pairs, log. split; assumption.
Qed.

Theorem compute_mask_work_bound_proof :
  forall (lg : Q -> Q), (forall x : Q, (3 <= x -> 1 <= lg x)%Q) ->
  forall rlen n_pairs n_matches : Z,
    0 <= rlen -> 0 <= n_pairs -> cm_break lg rlen n_pairs n_matches = false ->
    rlen * n_pairs + 2 <= Z.max 0 n_matches + 3 * Z.max n_pairs 1.
Proof. intros lg Hlg. apply cm_step_bound. exact Hlg. Qed.

(* the hypothesis on lg is satisfiable, and a slice of 2^39 positions over one stored element is NOT walked *)
Example compute_mask_work_example :
  (forall x : Q, (3 <= x -> 1 <= (fun y => (y - 1) / 2) x)%Q) /\
  cm_break (fun y => (y - 1) / 2)%Q (2 ^ 39) 1 1 = true /\
  cm_break (fun y => (y - 1) / 2)%Q 1 1 5 = false.
Proof.
  split; [|split; vm_compute; reflexivity].
  intros x Hx. apply Qle_shift_div_l; [reflexivity|]. unfold Qminus. 
  apply (Qplus_le_r _ _ 1). ring_simplify. exact Hx.
Qed.

(* ================================================================= _sort_coo group scan *)
Lemma sort_scan_ok gs idx prev first n acc :
  Forall (fun g => -1 <= g) gs -> 0 <= idx -> idx + zlen gs = n + 1 -> (prev <> -1 -> 0 <= first) ->
  exists r, sort_scan gs idx prev first n acc = Done r.
Proof.
  intros Hg. revert idx prev first acc. induction Hg as [|g gs Hg0 Hg IH]; intros idx prev first acc Hi Hn Hf;
    cbn [sort_scan]; [eexists; reflexivity|].
  rewrite zlen_cons in Hn. pose proof (zlen_nonneg gs).
  destruct (Z.eqb_spec g prev); [apply IH; lia|].
  destruct (Z.eqb_spec prev (-1)); cbn [negb].
  - apply IH; try lia.
  - destruct (Z.ltb_spec first 0); [lia|]. destruct (Z.ltb_spec n idx); [lia|]. cbn [orb].
    apply IH; lia.
Qed.

Theorem sort_coo_scan_in_bounds_proof :
  forall group_coords : list Z,
    Forall (fun g => 0 <= g) group_coords -> exists r, sort_coo_scan group_coords = Done r.
Proof.
  intros gs Hg. unfold sort_coo_scan. apply sort_scan_ok; try lia.
  - apply Forall_app. split; [eapply Forall_impl; [|exact Hg]; cbn; intros; lia|repeat constructor; lia].
  - rewrite zlen_app. unfold zlen at 2. cbn. lia.
Qed.

(* ================================================================= algA *)
Lemma rd_wrap_ok {A} (l : list A) i : - zlen l <= i < zlen l -> exists v, rd l i = Done v.
Proof.
  intros H. unfold rd.
  destruct (Z.ltb_spec i 0).
  - destruct (Z.ltb_spec (i + zlen l) 0); [lia|]. destruct (Z.leb_spec (zlen l) (i + zlen l)); [lia|]. cbn.
    destruct (nth_error l (Z.to_nat (i + zlen l))) eqn:E; [eexists; reflexivity|].
    apply nth_error_None in E. unfold zlen in *. lia.
  - destruct (Z.ltb_spec i 0); [lia|]. destruct (Z.leb_spec (zlen l) i); [lia|]. cbn.
    destruct (nth_error l (Z.to_nat i)) eqn:E; [eexists; reflexivity|].
    apply nth_error_None in E. unfold zlen in *. lia.
Qed.

Section AlgAP.
  Variable F : nat.
  Variable gt : nat -> bool.
  Variable last_draw : Z.

  (* n = N - top is the number of elements still to be selected; it stays >= 2 inside the loop, so
     N - 1 = (top - 1) + n never reaches 0 and top never goes below 0 *)
  Lemma algA_inner_ok fuel qz S_ top N k nn :
    0 <= top -> N = top + nn -> 2 <= nn -> qz = (top =? 0) -> top < Z.of_nat fuel ->
    exists S' top' N' k', algA_inner gt fuel qz S_ top N k = Done (S', top', N', k') /\
                          0 <= top' /\ top' <= top /\ N' = top' + nn.
  Proof.
    revert qz S_ top N k. induction fuel as [|f IH]; intros qz S_ top N k Ht HN Hn Hq Hf; [lia|].
    cbn [algA_inner]. subst qz.
    destruct (Z.eqb_spec top 0) as [E|E]; cbn [negb andb].
    - exists S_, top, N, k. split; [reflexivity|lia].
    - destruct (gt k).
      + destruct (Z.eqb_spec (N - 1) 0) as [E0|E0]; [lia|].
        destruct (IH (false || (top - 1 =? 0)) (S_ + 1) (top - 1) (N - 1) (S k)
                    ltac:(lia) ltac:(lia) Hn ltac:(reflexivity) ltac:(lia)) as [S' [t' [N' [k' [-> H]]]]].
        exists S', t', N', k'. split; [reflexivity|lia].
      + exists S_, top, N, (S k). split; [reflexivity|lia].
  Qed.

  Lemma algA_outer_ok fuel n N top i arr k :
    1 <= n -> 0 <= top -> N = top + n -> 0 <= i -> i + n = zlen arr -> n < Z.of_nat fuel -> N < Z.of_nat F ->
    exists arr', algA_outer F gt last_draw fuel n N top i arr k = Done arr'.
  Proof.
    revert n N top i arr k. induction fuel as [|f IH]; intros n N top i arr k Hn Ht HN Hi Hlen Hf HF; [lia|].
    cbn [algA_outer].
    destruct (Z.leb_spec 2 n) as [H2|H2].
    - destruct (Z.eqb_spec N 0); [lia|].
      destruct (algA_inner_ok F (top =? 0) 0 top N k n Ht HN H2 eq_refl ltac:(lia))
        as [S' [t' [N' [k' [-> [H3 [H4 H5]]]]]]]. cbn [kbind].
      destruct (rd_wrap_ok arr (i - 1) ltac:(lia)) as [p ->]. cbn [kbind].
      destruct (wr_ok arr i (p + S' + 1) ltac:(lia)) as [arr' [-> Hl]]. cbn [kbind].
      apply IH; try lia. unfold zlen in *. lia.
    - destruct (rd_wrap_ok arr (i - 1) ltac:(lia)) as [p ->]. cbn [kbind].
      destruct (wr_ok arr i (p + last_draw + 1) ltac:(lia)) as [arr' [-> Hl]]. eexists; reflexivity.
  Qed.
End AlgAP.

(* for EVERY oracle (every sequence of answers to `quot > V`, every last draw): with the guard
   1 <= n <= N that `random` establishes, fuel N + 1 suffices for every loop, no access is out
   of bounds and no division has a zero divisor *)
Theorem algA_safe_proof :
  forall (gt : nat -> bool) (last_draw n N : Z) (F : nat),
    1 <= n <= N -> Z.of_nat F = N + 1 ->
    exists arr, algA F gt last_draw n N = Done arr.
Proof.
  intros gt ld n N F Hn HF. unfold algA.
  assert (Hz : zlen (repeat 0 (Z.to_nat n)) = n) by (unfold zlen; rewrite repeat_length; lia).
  destruct (wr_last_ok (repeat 0 (Z.to_nat n)) (-1) ltac:(lia)) as [arr [-> Hl]]. cbn [kbind].
  apply algA_outer_ok; try lia. unfold zlen in *. lia.
Qed.

(* without the guard the very first statement after the allocation writes outside the buffer *)
Example algA_n0_out_of_bounds : forall gt ld F, algA F gt ld 0 5 = OutOfBounds.
Proof. reflexivity. Qed.

(* ================================================================= algD (partial: termination for
   every oracle stream in which an accepting draw eventually occurs) *)
Section AlgDP.
  Variable draw : nat -> Z * bool * bool.

  Definition dS (k : nat) : Z := fst (fst (draw k)).
  Definition dB1 (k : nat) : bool := snd (fst (draw k)).
  Definition dB2 (k : nat) : bool := snd (draw k).

  (* draw k proposes a candidate S < qu1 that one of the two acceptance tests lets through *)
  Definition accepting (qu1 : Z) (k : nat) : bool := (dS k <? qu1) && (dB1 k || dB2 k).

  Lemma draw_eta k : draw k = (dS k, dB1 k, dB2 k).
  Proof. unfold dS, dB1, dB2. destruct (draw k) as [[a b] c]. reflexivity. Qed.

  (* ---- results other than OutOfFuel do not depend on the fuel *)
  Lemma tloop_mono fuel fuel' t limit bottom r :
    algD_tloop fuel t limit bottom = r -> r <> OutOfFuel -> (fuel <= fuel')%nat ->
    algD_tloop fuel' t limit bottom = r.
  Proof.
    revert fuel' t bottom. induction fuel as [|f IH]; intros fuel' t bottom E Hr Hle; [cbn in E; congruence|].
    destruct fuel' as [|f']; [lia|]. cbn [algD_tloop] in *.
    destruct (limit <=? t); [|assumption]. destruct (bottom =? 0); [assumption|].
    apply IH; [assumption|assumption|lia].
  Qed.

  Lemma draw_mono fuel fuel' qu1 k r :
    algD_draw draw fuel qu1 k = r -> r <> OutOfFuel -> (fuel <= fuel')%nat ->
    algD_draw draw fuel' qu1 k = r.
  Proof.
    revert fuel' k. induction fuel as [|f IH]; intros fuel' k E Hr Hle; [cbn in E; congruence|].
    destruct fuel' as [|f']; [lia|]. cbn [algD_draw] in *.
    destruct (draw k) as [[s b1] b2]. destruct (s <? qu1); [assumption|].
    apply IH; [assumption|assumption|lia].
  Qed.

  Lemma reject_mono fuel fuel' F F' n N qu1 k r :
    algD_reject F draw fuel n N qu1 k = r -> r <> OutOfFuel -> (fuel <= fuel')%nat -> (F <= F')%nat ->
    algD_reject F' draw fuel' n N qu1 k = r.
  Proof.
    revert fuel' k. induction fuel as [|f IH]; intros fuel' k E Hr Hle HF; [cbn in E; congruence|].
    destruct fuel' as [|f']; [lia|]. cbn [algD_reject] in *.
    destruct (algD_draw draw F qu1 k) as [[[[s b1] b2] k1]| | |] eqn:Ed; cbn [kbind] in E.
    - rewrite (draw_mono F F' qu1 k _ Ed ltac:(discriminate) HF). cbn [kbind].
      destruct (qu1 - s =? 0); [assumption|]. destruct b1; [assumption|].
      destruct (if s <? n - 1 then (N - n, N - s) else (N - s - 1, qu1)) as [bottom limit].
      destruct (algD_tloop F (N - 1) limit bottom) as [[]| | |] eqn:Et; cbn [kbind] in E.
      + rewrite (tloop_mono F F' _ _ _ _ Et ltac:(discriminate) HF). cbn [kbind].
        destruct b2; [assumption|]. apply IH; [assumption|assumption|lia|assumption].
      + congruence.
      + rewrite (tloop_mono F F' _ _ _ _ Et ltac:(discriminate) HF). assumption.
      + rewrite (tloop_mono F F' _ _ _ _ Et ltac:(discriminate) HF). assumption.
    - congruence.
    - rewrite (draw_mono F F' qu1 k _ Ed ltac:(discriminate) HF). assumption.
    - rewrite (draw_mono F F' qu1 k _ Ed ltac:(discriminate) HF). assumption.
  Qed.

  (* ---- each loop, given enough fuel *)
  Lemma tloop_nofuel fuel t limit bottom :
    Z.max 0 (t - limit + 1) < Z.of_nat fuel -> algD_tloop fuel t limit bottom <> OutOfFuel.
  Proof.
    revert t bottom. induction fuel as [|f IH]; intros t bottom Hf; [lia|].
    cbn [algD_tloop]. destruct (Z.leb_spec limit t); [|discriminate].
    destruct (bottom =? 0); [discriminate|]. apply IH. lia.
  Qed.

  Lemma draw_ok j : forall fuel qu1 k,
    (dS (k + j) <? qu1) = true -> (j < fuel)%nat ->
    exists k1, (k <= k1 <= k + j)%nat /\ (dS k1 <? qu1) = true /\
               algD_draw draw fuel qu1 k = Done (dS k1, dB1 k1, dB2 k1, S k1).
  Proof.
    induction j as [|j IH]; intros fuel qu1 k Hacc Hf; (destruct fuel as [|f]; [lia|]); cbn [algD_draw];
      rewrite (draw_eta k).
    - replace (k + 0)%nat with k in Hacc by lia. rewrite Hacc. exists k. repeat split; try lia; assumption.
    - destruct (dS k <? qu1) eqn:E.
      + exists k. repeat split; try lia; assumption.
      + replace (k + S j)%nat with (S k + j)%nat in Hacc by lia.
        destruct (IH f qu1 (S k) Hacc ltac:(lia)) as [k1 [H1 [H2 H3]]].
        exists k1. repeat split; try lia; assumption.
  Qed.

  Lemma reject_ok j : forall fuel F n N qu1 k,
    accepting qu1 (k + j) = true -> (j < fuel)%nat -> (j < F)%nat -> 0 < qu1 <= N -> N < Z.of_nat F ->
    (forall i, 0 <= dS i) ->
    algD_reject F draw fuel n N qu1 k <> OutOfFuel /\
    forall s k', algD_reject F draw fuel n N qu1 k = Done (s, k') -> 0 <= s < qu1.
  Proof.
    induction j as [j IH] using lt_wf_ind. intros fuel F n N qu1 k Hacc Hf HF Hq HN Hpos.
    destruct fuel as [|f]; [lia|]. cbn [algD_reject].
    assert (Hlt : (dS (k + j) <? qu1) = true).
    { unfold accepting in Hacc. apply andb_true_iff in Hacc. tauto. }
    destruct (draw_ok j F qu1 k Hlt HF) as [k1 [Hk1 [Hs1 ->]]]. cbn [kbind].
    pose proof (Hpos k1) as Hp1.
    destruct (Z.eqb_spec (qu1 - dS k1) 0); [lia|].
    destruct (dB1 k1) eqn:Eb1.
    { split; [discriminate|]. intros s k' E. inversion E; subst. lia. }
    destruct (if dS k1 <? n - 1 then (N - n, N - dS k1) else (N - dS k1 - 1, qu1)) as [bottom limit] eqn:Ebl.
    assert (Ht : algD_tloop F (N - 1) limit bottom <> OutOfFuel).
    { apply tloop_nofuel. destruct (dS k1 <? n - 1); inversion Ebl; subst; lia. }
    destruct (algD_tloop F (N - 1) limit bottom) as [[]| | |]; cbn [kbind]; try congruence;
      try (split; [discriminate|intros; discriminate]).
    destruct (dB2 k1) eqn:Eb2.
    { split; [discriminate|]. intros s k' E. inversion E; subst. lia. }
    (* rejected: k1 is not the accepting draw, so it lies strictly before k + j *)
    assert (k1 <> k + j)%nat.
    { intros ->. unfold accepting in Hacc. rewrite Eb1, Eb2 in Hacc. rewrite andb_false_r in Hacc. discriminate. }
    apply (IH (k + j - S k1)%nat ltac:(lia) f F n N qu1 (S k1)); try assumption; try lia.
    replace (S k1 + (k + j - S k1))%nat with (k + j)%nat by lia. assumption.
  Qed.

  Hypothesis Hpos : forall i, 0 <= dS i.
  Hypothesis Hev : forall qu1 k, 0 < qu1 -> exists j, accepting qu1 (k + j)%nat = true.

  (* m = number of elements still to be selected *)
  Lemma outer_ok m : forall n N qu1 i arr k,
    n = Z.of_nat m + 1 -> qu1 = N - n + 1 -> 0 < qu1 -> 0 <= i -> i + n - 1 = zlen arr ->
    exists B : nat, forall F fuel, (B <= F)%nat -> (m < fuel)%nat ->
      algD_outer F draw fuel n N qu1 i arr k <> OutOfFuel.
  Proof.
    induction m as [|m IH]; intros n N qu1 i arr k Hn Hq Hq0 Hi Hlen.
    - exists O. intros F fuel _ Hf. destruct fuel as [|f]; [lia|]. cbn [algD_outer].
      destruct (Z.ltb_spec 1 n); [lia|discriminate].
    - destruct (Hev qu1 k Hq0) as [j Hj].
      set (F1 := S (Nat.max j (Z.to_nat N))).
      destruct (reject_ok j F1 F1 n N qu1 k Hj ltac:(lia) ltac:(lia) ltac:(lia) ltac:(lia) Hpos) as [Hr1 Hr2].
      destruct (algD_reject F1 draw F1 n N qu1 k) as [[s k']| | |] eqn:Er; try congruence.
      + specialize (Hr2 s k' eq_refl).
        assert (Hrd : exists p, rd arr (i - 1) = Done p) by (apply rd_wrap_ok; lia).
        destruct Hrd as [p Hp].
        destruct (wr_ok arr i (p + s + 1) ltac:(lia)) as [arr' [Hw Hl]].
        destruct (IH (n - 1) (N - s - 1) (qu1 - s) (i + 1) arr' k' ltac:(lia) ltac:(lia) ltac:(lia) ltac:(lia)
                     ltac:(unfold zlen in *; lia)) as [B HB].
        exists (Nat.max F1 B). intros F fuel HF Hf. destruct fuel as [|f]; [lia|]. cbn [algD_outer].
        destruct (Z.ltb_spec 1 n); [|discriminate].
        rewrite (reject_mono F1 F F1 F n N qu1 k _ Er ltac:(discriminate) ltac:(lia) ltac:(lia)). cbn [kbind].
        rewrite Hp. cbn [kbind]. rewrite Hw. cbn [kbind]. apply HB; lia.
      + exists F1. intros F fuel HF Hf. destruct fuel as [|f]; [lia|]. cbn [algD_outer].
        destruct (Z.ltb_spec 1 n); [|discriminate].
        rewrite (reject_mono F1 F F1 F n N qu1 k _ Er ltac:(discriminate) ltac:(lia) ltac:(lia)). discriminate.
      + exists F1. intros F fuel HF Hf. destruct fuel as [|f]; [lia|]. cbn [algD_outer].
        destruct (Z.ltb_spec 1 n); [|discriminate].
        rewrite (reject_mono F1 F F1 F n N qu1 k _ Er ltac:(discriminate) ltac:(lia) ltac:(lia)). discriminate.
  Qed.

  Theorem algD_terminates_partial_proof :
    forall n0 N : Z, 1 <= n0 < N ->
    exists B : nat, forall F : nat, (B <= F)%nat -> algD F draw n0 N <> OutOfFuel.
  Proof.
    intros n0 N Hn. unfold algD.
    assert (Hz : zlen (repeat 0 (Z.to_nat (n0 + 1 - 1))) = n0) by (unfold zlen; rewrite repeat_length; lia).
    destruct (wr_last_ok (repeat 0 (Z.to_nat (n0 + 1 - 1))) (-1) ltac:(lia)) as [arr [Hw Hl]].
    destruct (outer_ok (Z.to_nat n0) (n0 + 1) N (N - (n0 + 1) + 1) 0 arr 0%nat ltac:(lia) eq_refl ltac:(lia) ltac:(lia)
                ltac:(unfold zlen in *; lia)) as [B HB].
    exists (Nat.max B (S (Z.to_nat n0))). intros F HF. rewrite Hw. cbn [kbind]. apply HB; lia.
  Qed.
End AlgDP.

(* ================================================================= non-vacuity: the hypotheses of the
   theorems above are met by non-trivial values, and the kernels compute what the code computes *)
Example dot_coo_ndarray_example :
  (* [[0,2,0],[3,0,4]] @ [[1,0],[0,1],[2,2]]  (array2 is the transposed second operand) *)
  dot_coo_ndarray [0; 1; 1] [1; 0; 2] [2; 3; 4] [[1; 0; 2]; [0; 1; 2]] 2 2 4 = Done [[0; 2]; [11; 8]] /\
  dot_coo_ndarray_sparse [0; 1; 1] [1; 0; 2] [2; 3; 4] [[1; 0; 2]; [0; 1; 2]] 2 6 = Done [(0, 1, 2); (1, 0, 11); (1, 1, 8)] /\
  (* no output column (the former D3): returns at once *)
  dot_coo_ndarray [0; 1; 1] [1; 0; 2] [2; 3; 4] [] 2 0 4 = Done [[]; []] /\
  dot_coo_ndarray_sparse [0; 1; 1] [1; 0; 2] [2; 3; 4] [] 0 4 = Done [] /\
  mat_ok 2 3 [[1; 0; 2]; [0; 1; 2]] /\ Forall (fun r => 0 <= r < 2) [0; 1; 1] /\ Forall (fun c => 0 <= c < 3) [1; 0; 2].
Proof. repeat split; try reflexivity; repeat constructor; cbn; lia. Qed.

Example dot_ndarray_coo_example :
  dot_ndarray_coo [[1; 2]; [0; 3]] [0; 1] [1; 0] [5; 7] 2 2 = Done [[14; 5]; [21; 0]] /\
  dot_ndarray_coo_sparse [[1; 2]; [0; 3]] [0; 1] [1; 0] [5; 7] 2 = Done [(0, 0, 10); (0, 1, 7); (1, 0, 15)].
Proof. split; reflexivity. Qed.

Lemma sorted_le_135 : sorted_le [1; 3; 5].
Proof.
  intros i j Hi Hij Hj. unfold zlen in Hj. cbn in Hj. unfold znth.
  assert (Hi' : i = 0 \/ i = 1 \/ i = 2) by lia. assert (Hj' : j = 0 \/ j = 1 \/ j = 2) by lia.
  destruct Hi' as [-> | [-> | ->]]; destruct Hj' as [-> | [-> | ->]]; try lia;
    change (Z.to_nat 0) with 0%nat; change (Z.to_nat 1) with 1%nat; change (Z.to_nat 2) with 2%nat; cbn [nth]; lia.
Qed.

Lemma strict_incr_35 : strict_incr [3; 5].
Proof.
  intros i j Hi Hij Hj. unfold zlen in Hj. cbn in Hj. unfold znth.
  assert (i = 0) by lia. assert (j = 1) by lia. subst.
  change (Z.to_nat 0) with 0%nat; change (Z.to_nat 1) with 1%nat; cbn [nth]; lia.
Qed.

Example slicing_selection_example :
  sorted_le [1; 3; 5] /\ strict_incr [3; 5] /\
  slicing_selection_row [1; 3; 5] [3; 5] 10 6 = Done [(11, 0); (12, 1)] /\          (* binary-search branch *)
  slicing_selection_row [3] [1; 3; 5] 4 5 = Done [(4, 1)].                            (* linear branch *)
Proof. repeat split; try reflexivity; [apply sorted_le_135|apply strict_incr_35]. Qed.

Example match_arrays_example : match_arrays [1; 2; 2; 5] 5 [0; 2; 2; 5] = Done [(1, 1); (1, 2); (2, 1); (2, 2); (3, 3)].
Proof. reflexivity. Qed.

Example compute_mask_narrow_example :
  compute_mask_narrow 5 (fun y => (y - 1) / 2)%Q 4 [[0; 0; 1; 1]; [0; 1; 0; 1]] [[1]; [0; 1]] = Done (1%nat, [(2, 4)], [(1, 1, 4)]) /\
  compute_mask_narrow 5 (fun y => (y - 1) / 2)%Q 4 [[0; 0; 1; 1]; [0; 1; 0; 1]] [[1]; [1]] = Done (2%nat, [(3, 4)], [(1, 1, 4); (1, 1, 2)]) /\
  (* a slice of nine positions over four stored elements: the cost test stops the narrowing at once *)
  compute_mask_narrow 5 (fun y => (y - 1) / 2)%Q 4 [[0; 0; 1; 1]; [0; 1; 0; 1]] [[0; 1; 2; 3; 4; 5; 6; 7; 8]; [1]] = Done (0%nat, [(0, 4)], []).
Proof. repeat split; vm_compute; reflexivity. Qed.

Example algA_example :
  algA 11 (fun k => Nat.eqb k 0) 4 3 10 = Done [1; 2; 7].
Proof. reflexivity. Qed.

(* a stream that satisfies both hypotheses of algD_terminates_partial, and one that rejects twice first *)
Example algD_example :
  (forall i, 0 <= dS (fun _ => (0, true, true)) i) /\
  (forall qu1 k, 0 < qu1 -> accepting (fun _ => (0, true, true)) qu1 (k + 0) = true) /\
  algD 4 (fun _ => (0, true, true)) 2 30 = Done [0; 1] /\
  algD 6 (fun k => if Nat.ltb k 2 then (50, false, false) else (3, false, true)) 2 30 = Done [3; 7].
Proof.
  split; [intros; cbn; lia|]. split; [|split; reflexivity].
  intros qu1 k H. unfold accepting, dS, dB1, dB2. cbn. destruct (Z.ltb_spec 0 qu1); [reflexivity|lia].
Qed.

Example sort_coo_scan_example : sort_coo_scan [0; 0; 2; 2; 2; 5] = Done [(0, 2); (2, 5); (5, 6)].
Proof. reflexivity. Qed.

(* ================================================================= GCXS product kernels *)
Lemma nth_set_nth_eq {A} (n : nat) (l : list A) v d : (n < length l)%nat -> nth n (set_nth n l v) d = v.
Proof. revert n; induction l as [|x r IH]; intros [|n] H; cbn in *; try lia; [reflexivity|apply IH; lia]. Qed.

Lemma nth_set_nth_neq {A} (n m : nat) (l : list A) v d : n <> m -> nth m (set_nth n l v) d = nth m l d.
Proof.
  revert n m; induction l as [|x r IH]; intros [|n] [|m] H; cbn; try reflexivity; try lia. apply IH. lia.
Qed.

Lemma zlen_set_nth {A} n (l : list A) v : zlen (set_nth n l v) = zlen l.
Proof. unfold zlen. rewrite set_nth_length. reflexivity. Qed.

Lemma wr_znth {A} (l : list A) k v : 0 <= k < zlen l -> wr l k v = Done (set_nth (Z.to_nat k) l v).
Proof. intros H. unfold wr. destruct (upd_ok l k (fun _ => Done v) H) as [x [_ ->]]. reflexivity. Qed.

Lemma znth_set_eq l k v : 0 <= k < zlen l -> znth (set_nth (Z.to_nat k) l v) k = v.
Proof. intros H. unfold znth. apply nth_set_nth_eq. unfold zlen in H. lia. Qed.

Lemma znth_set_neq l k v j : 0 <= k -> 0 <= j -> j <> k -> znth (set_nth (Z.to_nat k) l v) j = znth l j.
Proof. intros Hk Hj Hne. unfold znth. apply nth_set_nth_neq. lia. Qed.

Lemma In_firstn {A} (x : A) n l : In x (firstn n l) -> In x l.
Proof. revert l; induction n as [|n IH]; intros [|y l]; cbn; try tauto. intros [->|H]; [left; reflexivity|right; apply IH; assumption]. Qed.

Lemma In_skipn {A} (x : A) n l : In x (skipn n l) -> In x l.
Proof. revert l; induction n as [|n IH]; intros [|y l]; cbn; try tauto. intros H. right. apply IH. assumption. Qed.

Lemma In_slice {A} (x : A) l lo hi : In x (slice l lo hi) -> In x l.
Proof. unfold slice. intros H. apply In_firstn in H. apply In_skipn in H. exact H. Qed.

Lemma In_zip_fst {A B} (x : A) (y : B) l1 l2 : In (x, y) (zip l1 l2) -> In x l1.
Proof. apply in_combine_l. Qed.

Lemma nth_repeat_nat (v : Z) n m : (m < n)%nat -> nth m (repeat v n) 0 = v.
Proof. revert m; induction n as [|n IH]; intros [|m] H; cbn; try lia; try reflexivity. apply IH. lia. Qed.

Lemma znth_repeat v n x : 0 <= x < Z.of_nat n -> znth (repeat v n) x = v.
Proof. intros H. unfold znth. apply nth_repeat_nat. lia. Qed.

(* ---- the mask counter alone *)
Lemma mask_count_ok ks : forall i mask cnt,
  Forall (fun k => 0 <= k < zlen mask) ks ->
  exists mask' cnt', mask_count ks i mask cnt = Done (mask', cnt') /\ zlen mask' = zlen mask /\ cnt <= cnt'.
Proof.
  induction ks as [|k ks IH]; intros i mask cnt Hk; cbn [mask_count].
  - exists mask, cnt. repeat split; lia.
  - inversion Hk as [|? ? Hk0 Hks]; subst. rewrite (rd_znth mask k Hk0). cbn [kbind].
    destruct (znth mask k =? i).
    + apply IH. assumption.
    + rewrite (wr_znth mask k i Hk0). cbn [kbind].
      destruct (IH i (set_nth (Z.to_nat k) mask i) (cnt + 1)) as [m' [c' [E [L C]]]].
      { rewrite zlen_set_nth. assumption. }
      exists m', c'. rewrite zlen_set_nth in L. repeat split; [assumption|assumption|lia].
Qed.

(* ---- linked list through nx: head -> nx[head] -> ... -> -2 *)
Fixpoint chain (nx : list Z) (head : Z) (l : list Z) : Prop :=
  match l with
  | [] => head = -2
  | x :: r => head = x /\ chain nx (znth nx x) r
  end.

Lemma chain_set nx k v : forall l head, 0 <= k -> Forall (fun x => 0 <= x) l -> ~ In k l ->
  chain nx head l -> chain (set_nth (Z.to_nat k) nx v) head l.
Proof.
  induction l as [|x r IH]; intros head Hk Hp Hn Hc; cbn in *; [assumption|].
  destruct Hc as [-> Hc]. split; [reflexivity|]. inversion Hp; subst.
  rewrite znth_set_neq by (try lia; intros ->; apply Hn; left; reflexivity).
  apply IH; try assumption. intros Hin. apply Hn. right. assumption.
Qed.

Section LinkedList.
  Variable n : Z.       (* number of columns: length of mask / next_ / sums *)
  Variable i : Z.       (* current row id *)

  Definition ll_inv (mask nx : list Z) (head : Z) (l : list Z) : Prop :=
    zlen mask = n /\ zlen nx = n /\ NoDup l /\ Forall (fun x => 0 <= x < n) l /\
    (forall x, 0 <= x < n -> (znth nx x <> -1 <-> In x l)) /\
    (forall x, 0 <= x < n -> (znth mask x = i <-> In x l)) /\
    chain nx head l.

  (* the count kernel's mask pass and the fill kernel's insertion pass, side by side, on the same
     sequence of columns: they increment together *)
  Lemma lockstep ps : forall mask nx sums head l cnt len,
    Forall (fun p => 0 <= fst p < n) ps -> ll_inv mask nx head l -> zlen sums = n -> head <> -1 ->
    exists mask' cnt' nx' sums' head' l',
      mask_count (map fst ps) i mask cnt = Done (mask', cnt') /\
      ll_insert ps nx sums head len = Done (nx', sums', head', len + (cnt' - cnt)) /\
      ll_inv mask' nx' head' l' /\ zlen sums' = n /\ head' <> -1 /\
      zlen l' = zlen l + (cnt' - cnt) /\ 0 <= cnt' - cnt /\
      (forall x, 0 <= x < n -> znth mask' x = i \/ znth mask' x = znth mask x).
  Proof.
    induction ps as [|[k v] ps IH]; intros mask nx sums head l cnt len Hps Hinv Hs Hh; cbn [map fst mask_count ll_insert].
    - exists mask, cnt, nx, sums, head, l. replace (len + (cnt - cnt)) with len by lia.
      split; [reflexivity|]. split; [reflexivity|]. split; [exact Hinv|]. split; [assumption|]. split; [assumption|].
      split; [lia|]. split; [lia|]. intros; right; reflexivity.
    - inversion Hps as [|? ? Hk Hps']; subst. cbn [fst] in Hk.
      destruct Hinv as [Lm [Ln [Nd [Rg [Hnx [Hmk Hch]]]]]].
      rewrite (rd_znth mask k) by lia. cbn [kbind].
      rewrite (rd_znth sums k) by lia. cbn [kbind].
      rewrite (wr_znth sums k) by lia. cbn [kbind].
      rewrite (rd_znth nx k) by lia. cbn [kbind].
      set (sums1 := set_nth (Z.to_nat k) sums (znth sums k + v)).
      assert (Ls1 : zlen sums1 = n) by (unfold sums1; rewrite zlen_set_nth; assumption).
      destruct (Z.eqb_spec (znth mask k) i) as [Em|Em].
      + (* already on the list *)
        assert (Hin : In k l) by (apply Hmk; [lia|assumption]).
        assert (Hx : znth nx k <> -1) by (apply Hnx; [lia|assumption]).
        destruct (Z.eqb_spec (znth nx k) (-1)); [contradiction|].
        apply IH; try assumption. exact (conj Lm (conj Ln (conj Nd (conj Rg (conj Hnx (conj Hmk Hch)))))).
      + assert (Hnin : ~ In k l) by (intros Hin; apply Em; apply Hmk; [lia|assumption]).
        assert (Hx : znth nx k = -1).
        { destruct (Z.eq_dec (znth nx k) (-1)); [assumption|]. exfalso. apply Hnin. apply Hnx; [lia|assumption]. }
        rewrite Hx. cbn [Z.eqb]. change (-1 =? -1) with true. cbn iota.
        rewrite (wr_znth mask k) by lia. rewrite (wr_znth nx k) by lia. cbn [kbind].
        set (mask1 := set_nth (Z.to_nat k) mask i). set (nx1 := set_nth (Z.to_nat k) nx head).
        assert (Hinv1 : ll_inv mask1 nx1 k (k :: l)).
        { unfold ll_inv, mask1, nx1. rewrite !zlen_set_nth.
          refine (conj Lm (conj Ln (conj _ (conj _ (conj _ (conj _ _)))))).
          - constructor; assumption.
          - constructor; [lia|assumption].
          - intros x Hxr. split.
            + intros Hne. destruct (Z.eq_dec x k) as [->|Hd]; [left; reflexivity|].
              right. apply Hnx; [assumption|]. rewrite znth_set_neq in Hne by lia. assumption.
            + intros [<-|Hin]; [rewrite znth_set_eq by lia; assumption|].
              destruct (Z.eq_dec x k) as [->|Hd]; [contradiction|]. rewrite znth_set_neq by lia. apply Hnx; assumption.
          - intros x Hxr. split.
            + intros He. destruct (Z.eq_dec x k) as [->|Hd]; [left; reflexivity|].
              right. apply Hmk; [assumption|]. rewrite znth_set_neq in He by lia. assumption.
            + intros [<-|Hin]; [rewrite znth_set_eq by lia; reflexivity|].
              destruct (Z.eq_dec x k) as [->|Hd]; [contradiction|]. rewrite znth_set_neq by lia. apply Hmk; assumption.
          - cbn [chain]. split; [reflexivity|]. rewrite znth_set_eq by lia.
            apply chain_set; try assumption; [lia|]. eapply Forall_impl; [|exact Rg]. cbn. intros; lia. }
        destruct (IH mask1 nx1 sums1 k (k :: l) (cnt + 1) (len + 1) Hps' Hinv1 Ls1 ltac:(lia))
          as [m' [c' [nx' [s' [h' [l' [E1 [E2 [I' [Ls' [Hh' [Ll [Hc Hm]]]]]]]]]]]]].
        exists m', c', nx', s', h', l'. rewrite E1.
        replace (len + (c' - cnt)) with (len + 1 + (c' - (cnt + 1))) by lia. rewrite E2.
        split; [reflexivity|]. split; [reflexivity|]. split; [exact I'|]. split; [assumption|]. split; [assumption|].
        split; [rewrite Ll, zlen_cons; lia|]. split; [lia|].
        { intros x Hxr. destruct (Hm x Hxr) as [H1|H1]; [left; assumption|].
          unfold mask1 in H1. destruct (Z.eq_dec x k) as [->|Hd].
          -- rewrite znth_set_eq in H1 by lia. left; assumption.
          -- rewrite znth_set_neq in H1 by lia. right; assumption. }
  Qed.

  (* draining the list: exactly |l| writes into indices / data, and next_ is clean afterwards *)
  Lemma drain_ok guarded l : forall head nx sums indices data nnz,
    chain nx head l -> NoDup l -> Forall (fun x => 0 <= x < n) l -> (forall x, In x l -> znth nx x <> -1) ->
    zlen nx = n -> zlen sums = n -> zlen data = zlen indices -> 0 <= nnz -> nnz + zlen l <= zlen indices ->
    exists nx' sums' indices' data',
      ll_drain guarded (length l) head nx sums indices data nnz = Done (nx', sums', indices', data', nnz + zlen l) /\
      zlen nx' = n /\ zlen sums' = n /\ zlen indices' = zlen indices /\ zlen data' = zlen indices /\
      (forall x, 0 <= x < n -> znth nx' x = if in_dec Z.eq_dec x l then -1 else znth nx x).
  Proof.
    induction l as [|x r IH]; intros head nx sums indices data nnz Hc Nd Rg Hne Ln Ls Ld Hn Hb; cbn [length ll_drain].
    - exists nx, sums, indices, data. replace (nnz + zlen (@nil Z)) with nnz by (unfold zlen; cbn; lia).
      repeat split; try assumption; try lia.
    - cbn [chain] in Hc. destruct Hc as [-> Hc]. apply NoDup_cons_iff in Nd. destruct Nd as [Hnin Nd']. pose proof (Forall_inv Rg) as Hx. pose proof (Forall_inv_tail Rg) as Rg'. cbn beta in Hx.
      rewrite zlen_cons in Hb.
      rewrite (rd_znth nx x) by lia. cbn [kbind].
      assert (Hxne : znth nx x <> -1) by (apply Hne; left; reflexivity).
      destruct (Z.eqb_spec (znth nx x) (-1)); [contradiction|]. cbn [negb]. rewrite orb_true_r.
      pose proof (zlen_nonneg r).
      rewrite (wr_znth indices nnz) by lia. cbn [kbind].
      rewrite (rd_znth sums x) by lia. cbn [kbind].
      rewrite (wr_znth data nnz) by lia. cbn [kbind].
      rewrite (wr_znth nx x) by lia. cbn [kbind]. rewrite (wr_znth sums x) by lia. cbn [kbind].
      assert (P1 : chain (set_nth (Z.to_nat x) nx (-1)) (znth nx x) r).
      { apply chain_set; try assumption; [lia|]. eapply Forall_impl; [|exact Rg']. cbn; intros; lia. }
      assert (P2 : forall y, In y r -> znth (set_nth (Z.to_nat x) nx (-1)) y <> -1).
      { intros y Hy. assert (0 <= y < n) by (rewrite Forall_forall in Rg'; apply Rg'; assumption).
        rewrite znth_set_neq; [apply Hne; right; assumption|lia|lia|]. intros ->. contradiction. }
      destruct (IH (znth nx x) (set_nth (Z.to_nat x) nx (-1)) (set_nth (Z.to_nat x) sums 0)
                   (set_nth (Z.to_nat nnz) indices x) (set_nth (Z.to_nat nnz) data (znth sums x)) (nnz + 1)
                   P1 Nd' Rg' P2 ltac:(rewrite zlen_set_nth; assumption) ltac:(rewrite zlen_set_nth; assumption)
                   ltac:(rewrite !zlen_set_nth; assumption) ltac:(lia) ltac:(rewrite zlen_set_nth; lia))
        as [nx' [s' [i' [d' [E [L1 [L2 [L3 [L4 Hv]]]]]]]]].
      { exists nx', s', i', d'. rewrite zlen_cons. replace (nnz + (zlen r + 1)) with (nnz + 1 + zlen r) by lia. rewrite E.
        rewrite !zlen_set_nth in *.
        split; [reflexivity|]. split; [assumption|]. split; [assumption|]. split; [assumption|]. split; [assumption|].
        intros y Hy. rewrite (Hv y Hy).
        destruct (in_dec Z.eq_dec y r) as [Hi|Hi]; destruct (in_dec Z.eq_dec y (x :: r)) as [Hj|Hj]; try reflexivity.
        * exfalso. apply Hj. right. assumption.
        * destruct Hj as [<-|Hj]; [|contradiction]. rewrite znth_set_eq by lia. reflexivity.
        * rewrite znth_set_neq; [reflexivity|lia|lia|]. intros ->. apply Hj. left. reflexivity. }
  Qed.
End LinkedList.

(* ---- iteration spaces *)
Lemma map_fst_zip {A B} (l1 : list A) (l2 : list B) : length l1 = length l2 -> map fst (zip l1 l2) = l1.
Proof.
  revert l2; induction l1 as [|x r IH]; intros [|y s] H; cbn in *; try discriminate; [reflexivity|].
  f_equal. apply IH. lia.
Qed.

Lemma slice_length {A} (l : list A) lo hi :
  length (slice l lo hi) = Nat.min (Z.to_nat (hi - lo)) (length l - Z.to_nat lo).
Proof. unfold slice. rewrite firstn_length, skipn_length. reflexivity. Qed.

Lemma map_fst_zip_slice (l d : list Z) lo hi : zlen d = zlen l -> map fst (zip (slice l lo hi) (slice d lo hi)) = slice l lo hi.
Proof. intros H. apply map_fst_zip. rewrite !slice_length. unfold zlen in H. lia. Qed.

Lemma Forall_slice {A} (P : A -> Prop) l lo hi : Forall P l -> Forall P (slice l lo hi).
Proof. intros H. apply Forall_forall. intros x Hx. rewrite Forall_forall in H. apply H. eapply In_slice; eassumption. Qed.

Lemma sort_pairs_length l : length (sort_pairs l) = length l.
Proof.
  unfold sort_pairs. induction l as [|p l IH]; cbn; [reflexivity|]. rewrite <- IH.
  generalize (fold_right ins_pair [] l) as s. clear. intros s. induction s as [|q s IH]; cbn; [reflexivity|].
  destruct (fst p <=? fst q); cbn; [reflexivity|]. rewrite IH. reflexivity.
Qed.

Lemma set_slice_length {A} (l : list A) lo (vals : list A) :
  (Z.to_nat lo + length vals <= length l)%nat \/ (length l <= Z.to_nat lo /\ vals = [])%nat ->
  length (set_slice l lo vals) = length l.
Proof.
  unfold set_slice. rewrite !app_length, firstn_length, skipn_length. intros [H|[H ->]]; cbn; lia.
Qed.

Lemma sort_segment_length indices data lo hi :
  zlen data = zlen indices ->
  zlen (fst (sort_segment indices data lo hi)) = zlen indices /\ zlen (snd (sort_segment indices data lo hi)) = zlen indices.
Proof.
  intros Hd. unfold sort_segment. cbn [fst snd]. unfold zlen in *.
  assert (Hl : length (sort_pairs (zip (slice indices lo hi) (slice data lo hi))) = length (slice indices lo hi)).
  { rewrite sort_pairs_length. unfold zip. rewrite combine_length, !slice_length. lia. }
  rewrite !set_slice_length; rewrite ?map_length, ?Hl, ?slice_length; try lia.
  - destruct (Nat.le_gt_cases (length data) (Z.to_nat lo)) as [H|H]; [right|left; lia].
    split; [lia|]. assert (E : length (map snd (sort_pairs (zip (slice indices lo hi) (slice data lo hi)))) = 0%nat).
    { rewrite map_length, Hl, slice_length. lia. }
    destruct (map snd _); [reflexivity|discriminate].
  - destruct (Nat.le_gt_cases (length indices) (Z.to_nat lo)) as [H|H]; [right|left; lia].
    split; [lia|]. assert (E : length (map fst (sort_pairs (zip (slice indices lo hi) (slice data lo hi)))) = 0%nat).
    { rewrite map_length, Hl, slice_length. lia. }
    destruct (map fst _); [reflexivity|discriminate].
Qed.


Definition rows_from (a m : nat) : list Z := map Z.of_nat (seq a m).

Lemma zrange_rows n : zrange n = rows_from 0 (Z.to_nat n).
Proof. reflexivity. Qed.

Definition mask_below (n : Z) (mask : list Z) (b : Z) : Prop := forall x, 0 <= x < n -> znth mask x < b.

Section CsrCsrP.
  Variables (a_indices a_data a_indptr b_indices b_data b_indptr : list Z) (n_row n_col K : Z).
  Hypothesis Hrow : 0 <= n_row.
  Hypothesis Hcol : 0 <= n_col.
  Hypothesis Hap : zlen a_indptr = n_row + 1.
  Hypothesis Hai : Forall (fun j => 0 <= j < K) a_indices.
  Hypothesis Had : zlen a_data = zlen a_indices.
  Hypothesis Hbp : zlen b_indptr = K + 1.
  Hypothesis Hbi : Forall (fun k => 0 <= k < n_col) b_indices.
  Hypothesis Hbd : zlen b_data = zlen b_indices.

  Definition js_ks (js : list Z) : list Z :=
    flat_map (fun j => slice b_indices (znth b_indptr j) (znth b_indptr (j + 1))) js.
  Definition row_ks (i : Z) : list Z :=
    js_ks (slice a_indices (znth a_indptr i) (znth a_indptr (i + 1))).

  Lemma js_ks_range js : Forall (fun k => 0 <= k < n_col) (js_ks js).
  Proof.
    apply Forall_forall. intros x Hx. unfold js_ks in Hx. apply in_flat_map in Hx. destruct Hx as [j [_ Hx]].
    rewrite Forall_forall in Hbi. apply Hbi. eapply In_slice; eassumption.
  Qed.

  Lemma csr_pairs_js_ok bd js :
    zlen bd = zlen b_indices -> Forall (fun j => 0 <= j < K) (map fst js) ->
    exists ps, csr_pairs_js b_indices bd b_indptr js = Done ps /\ map fst ps = js_ks (map fst js).
  Proof.
    intros Hd. induction js as [|[j av] js IH]; intros Hj; cbn [csr_pairs_js map fst].
    - exists []. split; reflexivity.
    - cbn [map fst] in Hj. pose proof (Forall_inv Hj) as Hj0. pose proof (Forall_inv_tail Hj) as Hj'. cbn beta in Hj0.
      rewrite (rd_znth b_indptr j) by lia. cbn [kbind]. rewrite (rd_znth b_indptr (j + 1)) by lia. cbn [kbind].
      destruct (IH Hj') as [ps [-> E]]. cbn [kbind]. eexists. split; [reflexivity|].
      rewrite map_app, map_map. cbn [fst]. change (fun x : Z * Z => fst x) with (@fst Z Z).
      rewrite (map_fst_zip_slice b_indices bd _ _ Hd), E. reflexivity.
  Qed.

  Lemma csr_row_pairs_ok ad bd i :
    zlen ad = zlen a_indices -> zlen bd = zlen b_indices -> 0 <= i < n_row ->
    exists ps, csr_row_pairs a_indices ad a_indptr b_indices bd b_indptr i = Done ps /\ map fst ps = row_ks i.
  Proof.
    intros Ha Hb Hi. unfold csr_row_pairs.
    rewrite (rd_znth a_indptr i) by lia. cbn [kbind]. rewrite (rd_znth a_indptr (i + 1)) by lia. cbn [kbind].
    destruct (csr_pairs_js_ok bd (zip (slice a_indices (znth a_indptr i) (znth a_indptr (i + 1)))
                                      (slice ad (znth a_indptr i) (znth a_indptr (i + 1)))) Hb) as [ps [E1 E2]].
    - rewrite (map_fst_zip_slice a_indices ad _ _ Ha). apply Forall_slice. assumption.
    - exists ps. split; [assumption|]. rewrite E2, (map_fst_zip_slice a_indices ad _ _ Ha). reflexivity.
  Qed.

  (* the count kernel alone *)
  Lemma ccn_rows_ok m : forall a mask cnt,
    Z.of_nat (a + m) <= n_row -> zlen mask = n_col ->
    exists total, ccn_rows a_indices a_indptr b_indices b_indptr (rows_from a m) mask cnt = Done total /\ cnt <= total.
  Proof.
    induction m as [|m IH]; intros a mask cnt Ha Hm; cbn [rows_from seq map ccn_rows].
    - exists cnt. split; [reflexivity|lia].
    - destruct (csr_row_pairs_ok a_indices b_indices (Z.of_nat a) eq_refl eq_refl ltac:(lia)) as [ps [-> Eks]]. cbn [kbind].
      destruct (mask_count_ok (map fst ps) (Z.of_nat a) mask cnt) as [m' [c' [-> [L C]]]].
      { rewrite Eks, Hm. apply js_ks_range. }
      cbn [kbind]. destruct (IH (S a) m' c' ltac:(lia) ltac:(lia)) as [t [E Ht]].
      exists t. split; [exact E|lia].
  Qed.

  Theorem csr_csr_count_nnz_safe_proof :
    exists c, csr_csr_count_nnz a_indices a_indptr b_indices b_indptr n_row n_col = Done c /\ 0 <= c.
  Proof.
    unfold csr_csr_count_nnz. rewrite zrange_rows. apply ccn_rows_ok; [lia|].
    unfold zlen. rewrite repeat_length. lia.
  Qed.

  (* the fill kernel next to the count kernel: every row writes exactly what the count kernel counted *)
  Lemma dcc_rows_ok m : forall a mask cnt total nx sums indices data indptr nnz,
    ccn_rows a_indices a_indptr b_indices b_indptr (rows_from a m) mask cnt = Done total ->
    Z.of_nat (a + m) <= n_row -> zlen mask = n_col -> mask_below n_col mask (Z.of_nat a) ->
    zlen nx = n_col -> zlen sums = n_col -> zlen data = zlen indices -> zlen indptr = n_row + 1 ->
    0 <= nnz -> nnz + (total - cnt) <= zlen indices ->
    exists r, dcc_rows a_indices a_data a_indptr b_indices b_data b_indptr (rows_from a m) nx sums indices data indptr nnz = Done r.
  Proof.
    induction m as [|m IH]; intros a mask cnt total nx sums indices data indptr nnz Hc Ha Lm Hb Ln Ls Ld Lp Hn Hbound;
      cbn [rows_from seq map dcc_rows ccn_rows] in *.
    - eexists; reflexivity.
    - set (i := Z.of_nat a) in *.
      destruct (csr_row_pairs_ok a_indices b_indices i eq_refl eq_refl ltac:(lia)) as [psc [Ec Eksc]].
      rewrite Ec in Hc. cbn [kbind] in Hc.
      destruct (csr_row_pairs_ok a_data b_data i Had Hbd ltac:(lia)) as [ps [-> Eks]]. cbn [kbind].
      assert (Hrange : Forall (fun p : Z * Z => 0 <= fst p < n_col) ps).
      { apply Forall_forall. intros p Hp. pose proof (js_ks_range (slice a_indices (znth a_indptr i) (znth a_indptr (i + 1)))) as R.
        rewrite Forall_forall in R. apply R. fold (row_ks i). rewrite <- Eks. apply in_map. assumption. }
      set (nx0 := repeat (-1) (length nx)).
      assert (Linv : ll_inv n_col i mask nx0 (-2) []).
      { unfold ll_inv, nx0. split; [assumption|]. split; [unfold zlen in *; rewrite repeat_length; assumption|].
        split; [constructor|]. split; [constructor|]. split; [|split; [|reflexivity]].
        - intros x Hx. rewrite znth_repeat by (unfold zlen in Ln; lia). cbn. tauto.
        - intros x Hx. specialize (Hb x Hx). cbn. split; [lia|tauto]. }
      destruct (lockstep n_col i ps mask nx0 sums (-2) [] cnt 0 Hrange Linv Ls ltac:(lia))
        as [m' [c' [nx1 [s1 [h1 [l1 [E1 [E2 [I1 [Ls1 [_ [Ll [Hcc Hmk]]]]]]]]]]]]].
      rewrite Eks, <- Eksc in E1. rewrite E1 in Hc. cbn [kbind] in Hc.
      rewrite E2. cbn [kbind].
      destruct I1 as [Lm1 [Ln1 [Nd1 [Rg1 [Hnx1 [Hmk1 Hch1]]]]]].
      destruct (ccn_rows_ok m (S a) m' c' ltac:(lia) Lm1) as [t' [Et Htc]].
      assert (t' = total) by (unfold rows_from in Et; congruence). subst t'.
      replace (0 + (c' - cnt)) with (zlen l1) by (unfold zlen in *; cbn [length] in Ll; lia).
      unfold zlen at 1. rewrite Nat2Z.id.
      destruct (drain_ok n_col true l1 h1 nx1 s1 indices data nnz Hch1 Nd1 Rg1) as [nx2 [s2 [i2 [d2 [-> [Ln2 [Ls2 [Li2 [Ld2 _]]]]]]]]];
        try assumption; try lia.
      { intros x Hx. apply Hnx1; [|assumption]. rewrite Forall_forall in Rg1. apply Rg1. assumption. }
      { unfold zlen in *. cbn [length] in Ll. lia. }
      cbn [kbind]. rewrite (rd_znth indptr i) by lia. cbn [kbind].
      pose proof (sort_segment_length i2 d2 (znth indptr i) (nnz + zlen l1) ltac:(lia)) as [S1 S2].
      destruct (sort_segment i2 d2 (znth indptr i) (nnz + zlen l1)) as [i3 d3]. cbn [fst snd] in S1, S2.
      rewrite (wr_znth indptr (i + 1)) by lia. cbn [kbind].
      pose proof (zlen_nonneg l1).
      apply (IH (S a) m' c' total); try assumption; try lia.
      + intros x Hx. destruct (Hmk x Hx) as [H1|H1]; [lia|]. specialize (Hb x Hx). lia.
      + rewrite zlen_set_nth. assumption.
      + unfold zlen in *. cbn [length] in Ll. lia.
  Qed.

  Theorem dot_csr_csr_safe_proof :
    exists r, dot_csr_csr a_indices a_data a_indptr b_indices b_data b_indptr n_row n_col = Done r.
  Proof.
    unfold dot_csr_csr, csr_csr_count_nnz. rewrite !zrange_rows.
    destruct (ccn_rows_ok (Z.to_nat n_row) 0 (repeat (-1) (Z.to_nat n_col)) 0) as [cnt [Ec Hc]];
      [lia|unfold zlen; rewrite repeat_length; lia|].
    rewrite Ec. cbn [kbind].
    assert (Lp : zlen (repeat 0 (Z.to_nat (n_row + 1))) = n_row + 1) by (unfold zlen; rewrite repeat_length; lia).
    rewrite (wr_znth (repeat 0 (Z.to_nat (n_row + 1))) 0) by lia. cbn [kbind].
    apply (dcc_rows_ok (Z.to_nat n_row) 0 (repeat (-1) (Z.to_nat n_col)) 0 cnt); try assumption; try lia;
      try (unfold zlen; rewrite ?repeat_length; lia).
    - intros x Hx. rewrite znth_repeat by lia. cbn. lia.
    - rewrite zlen_set_nth. assumption.
  Qed.
End CsrCsrP.

(* ---- column-compressed x dense *)
Lemma nth_firstn_lt {A} (k m : nat) (l : list A) d : (k < m)%nat -> nth k (firstn m l) d = nth k l d.
Proof.
  revert k l; induction m as [|m IH]; intros k l H; [lia|].
  destruct l as [|x l]; [destruct k; reflexivity|]. destruct k; cbn; [reflexivity|apply IH; lia].
Qed.

Lemma slice_map_znth (l : list Z) lo hi :
  0 <= lo -> hi <= zlen l -> slice l lo hi = map (znth l) (zrange2 lo hi).
Proof.
  intros Hlo Hhi. apply (nth_ext _ _ 0 0).
  - rewrite slice_length. unfold zrange2, zrange. rewrite !map_length, seq_length. unfold zlen in Hhi. lia.
  - intros k Hk. rewrite slice_length in Hk.
    assert (R : nth k (map (znth l) (zrange2 lo hi)) 0 = znth l (lo + Z.of_nat k)).
    { unfold zrange2, zrange. rewrite map_map, map_map.
      erewrite nth_indep; [rewrite (map_nth (fun x => znth l (lo + Z.of_nat x)) _ 0%nat k); rewrite seq_nth by lia; reflexivity|].
      rewrite map_length, seq_length. lia. }
    rewrite R. unfold slice. rewrite nth_firstn_lt by lia. rewrite nth_skipn_nat. unfold znth. f_equal. lia.
Qed.

Lemma gather2_ok a_indices a_data ks u :
  zlen a_data = zlen a_indices -> Forall (fun k => 0 <= k < zlen a_indices) ks ->
  exists ps, gather2 a_indices a_data ks u = Done ps /\ map fst ps = map (znth a_indices) ks.
Proof.
  intros Hd. induction ks as [|k ks IH]; intros Hk; cbn [gather2].
  - exists []. split; reflexivity.
  - pose proof (Forall_inv Hk) as Hk0. pose proof (Forall_inv_tail Hk) as Hk'. cbn beta in Hk0.
    rewrite (rd_znth a_indices k) by lia. cbn [kbind]. rewrite (rd_znth a_data k) by lia. cbn [kbind].
    destruct (IH Hk') as [ps [-> E]]. cbn [kbind]. eexists. split; [reflexivity|]. cbn [map fst]. rewrite E. reflexivity.
Qed.

Lemma zrange2_range lo hi x : In x (zrange2 lo hi) -> lo <= x < hi.
Proof.
  unfold zrange2. rewrite in_map_iff. intros [t [<- Ht]]. apply zrange_In in Ht. lia.
Qed.

Section CscNdarrayP.
  Variables (a_indices a_data a_indptr : list Z) (b : list (list Z)) (a_rows bK bC : Z).
  Hypothesis Hrows : 0 <= a_rows.
  Hypothesis HbK : 0 <= bK.
  Hypothesis HbC : 0 <= bC.
  Hypothesis Hap : zlen a_indptr = bK + 1.
  Hypothesis Hapr : Forall (fun p => 0 <= p <= zlen a_indices) a_indptr.
  Hypothesis Hai : Forall (fun k => 0 <= k < a_rows) a_indices.
  Hypothesis Had : zlen a_data = zlen a_indices.
  Hypothesis Hb : mat_ok bK bC b.

  Lemma ptr_range j : 0 <= j < bK + 1 -> 0 <= znth a_indptr j <= zlen a_indices.
  Proof.
    intros Hj. destruct (rd_ok a_indptr j ltac:(lia)) as [v [E Hn]]. rewrite (rd_znth a_indptr j) in E by lia.
    inversion E; subst. exact (nth_error_Forall _ _ _ _ Hapr Hn).
  Qed.

  (* both kernels visit the same stored rows for output column i *)
  Lemma csc_views_agree js i :
    Forall (fun j => 0 <= j < bK) js -> 0 <= i < bC ->
    exists ks ps, csc_count_ks a_indices a_indptr b js i = Done ks /\
                  csc_fill_pairs a_indices a_data a_indptr b js i = Done ps /\
                  map fst ps = ks /\ Forall (fun k => 0 <= k < a_rows) ks.
  Proof.
    intros Hjs Hi. induction Hjs as [|j js Hj Hjs IH]; cbn [csc_count_ks csc_fill_pairs].
    - exists [], []. repeat split; constructor.
    - destruct IH as [ks [ps [E1 [E2 [E3 R]]]]].
      rewrite (rd_znth a_indptr j) by lia. cbn [kbind]. rewrite (rd_znth a_indptr (j + 1)) by lia. cbn [kbind].
      pose proof (ptr_range j ltac:(lia)) as P0. pose proof (ptr_range (j + 1) ltac:(lia)) as P1.
      destruct (rd2_ok bK bC b j i Hb Hj Hi) as [u Eu]. rewrite Eu. cbn [kbind]. rewrite E1, E2. cbn [kbind].
      set (lo := znth a_indptr j) in *. set (hi := znth a_indptr (j + 1)) in *.
      assert (Rs : Forall (fun k => 0 <= k < a_rows) (slice a_indices lo hi)) by (apply Forall_slice; assumption).
      destruct (Z.eqb_spec u 0) as [->|Hu].
      + (* b[j, i] = 0: nothing visited *)
        cbn [kbind app]. destruct (zlen (slice a_indices lo hi) =? 0); cbn [kbind];
          change (0 =? 0) with true; cbn iota; exists ks, ps; repeat split; assumption.
      + destruct (gather2_ok a_indices a_data (zrange2 lo hi) u Had) as [here [Eh Fh]].
        { apply Forall_forall. intros x Hx. apply zrange2_range in Hx. lia. }
        rewrite Eh. cbn [kbind].
        assert (Efst : map fst here = slice a_indices lo hi) by (rewrite Fh, <- slice_map_znth by lia; reflexivity).
        destruct (Z.eqb_spec (zlen (slice a_indices lo hi)) 0) as [Ez|Ez]; cbn [kbind].
        * change (0 =? 0) with true. cbn iota. exists ks, (here ++ ps).
          assert (slice a_indices lo hi = []) by (destruct (slice a_indices lo hi); [reflexivity|rewrite zlen_cons in Ez; pose proof (zlen_nonneg l); lia]).
          repeat split; try assumption. rewrite map_app, Efst, H, E3. reflexivity.
        * destruct (Z.eqb_spec u 0); [contradiction|]. exists (slice a_indices lo hi ++ ks), (here ++ ps).
          repeat split; try assumption; [rewrite map_app, Efst, E3; reflexivity|apply Forall_app; split; assumption].
  Qed.

  Lemma zrange_Forall nn : Forall (fun j => 0 <= j < nn) (zrange nn).
  Proof. apply Forall_forall. intros x Hx. apply zrange_In in Hx. exact Hx. Qed.

  Lemma cscn_cols_ok m : forall a mask indptr cnt,
    Z.of_nat (a + m) <= bC -> zlen mask = a_rows -> zlen indptr = bC + 1 ->
    exists ip total, cscn_cols a_indices a_indptr b bK (rows_from a m) mask indptr cnt = Done (ip, total) /\
                     cnt <= total /\ zlen ip = bC + 1.
  Proof.
    induction m as [|m IH]; intros a mask indptr cnt Ha Lm Lp; cbn [rows_from seq map cscn_cols].
    - exists indptr, cnt. repeat split; [lia|assumption].
    - destruct (csc_views_agree (zrange bK) (Z.of_nat a) (zrange_Forall bK) ltac:(lia)) as [ks [ps [-> [_ [_ R]]]]]. cbn [kbind].
      destruct (mask_count_ok ks (Z.of_nat a) mask cnt) as [m' [c' [-> [L C]]]]; [rewrite Lm; assumption|]. cbn [kbind].
      rewrite (wr_znth indptr (Z.of_nat a + 1)) by lia. cbn [kbind].
      destruct (IH (S a) m' (set_nth (Z.to_nat (Z.of_nat a + 1)) indptr c') c' ltac:(lia) ltac:(lia) ltac:(rewrite zlen_set_nth; assumption))
        as [ip [t [E [Ht Lip]]]].
      exists ip, t. repeat split; [exact E|lia|assumption].
  Qed.

  Theorem csc_ndarray_count_nnz_safe_proof :
    forall indptr, zlen indptr = bC + 1 ->
    exists ip c, csc_ndarray_count_nnz a_indices a_indptr b a_rows bK bC indptr = Done (ip, c) /\ 0 <= c /\ zlen ip = bC + 1.
  Proof.
    intros indptr Lp. unfold csc_ndarray_count_nnz. rewrite zrange_rows.
    apply cscn_cols_ok; [lia| |assumption]. unfold zlen. rewrite repeat_length. lia.
  Qed.

  Lemma dcns_cols_ok m : forall a mask indptr cnt ip total nx sums indices data nnz,
    cscn_cols a_indices a_indptr b bK (rows_from a m) mask indptr cnt = Done (ip, total) ->
    Z.of_nat (a + m) <= bC -> zlen mask = a_rows -> mask_below a_rows mask (Z.of_nat a) -> zlen indptr = bC + 1 ->
    zlen nx = a_rows -> (forall x, 0 <= x < a_rows -> znth nx x = -1) -> zlen sums = a_rows -> zlen data = zlen indices ->
    0 <= nnz -> nnz + (total - cnt) <= zlen indices ->
    exists r, dcns_cols a_indices a_data a_indptr b bK (rows_from a m) nx sums indices data nnz = Done r.
  Proof.
    induction m as [|m IH]; intros a mask indptr cnt ip total nx sums indices data nnz Hc Ha Lm Hbel Lp Ln Hclean Ls Ld Hn Hbound;
      cbn [rows_from seq map dcns_cols cscn_cols] in *.
    - eexists; reflexivity.
    - set (i := Z.of_nat a) in *.
      destruct (csc_views_agree (zrange bK) i (zrange_Forall bK) ltac:(lia)) as [ks [ps [Ek [-> [Efst R]]]]].
      rewrite Ek in Hc. cbn [kbind] in *.
      assert (Hrange : Forall (fun p : Z * Z => 0 <= fst p < a_rows) ps).
      { apply Forall_forall. intros p Hp. rewrite Forall_forall in R. apply R. rewrite <- Efst. apply in_map. assumption. }
      assert (Linv : ll_inv a_rows i mask nx (-2) []).
      { unfold ll_inv. split; [assumption|]. split; [assumption|]. split; [constructor|]. split; [constructor|].
        split; [|split; [|reflexivity]].
        - intros x Hx. rewrite (Hclean x Hx). cbn. tauto.
        - intros x Hx. specialize (Hbel x Hx). cbn. split; [lia|tauto]. }
      destruct (lockstep a_rows i ps mask nx sums (-2) [] cnt 0 Hrange Linv Ls ltac:(lia))
        as [m' [c' [nx1 [s1 [h1 [l1 [E1 [E2 [I1 [Ls1 [_ [Ll [Hcc Hmk]]]]]]]]]]]]].
      rewrite Efst in E1. rewrite E1 in Hc. cbn [kbind] in Hc. rewrite E2. cbn [kbind].
      destruct I1 as [Lm1 [Ln1 [Nd1 [Rg1 [Hnx1 [Hmk1 Hch1]]]]]].
      rewrite (wr_znth indptr (i + 1)) in Hc by lia. cbn [kbind] in Hc.
      destruct (cscn_cols_ok m (S a) m' (set_nth (Z.to_nat (i + 1)) indptr c') c' ltac:(lia) Lm1 ltac:(rewrite zlen_set_nth; assumption))
        as [ip' [t' [Et [Htc _]]]].
      assert (t' = total) by (unfold rows_from in Et; congruence). subst t'.
      replace (0 + (c' - cnt)) with (zlen l1) by (unfold zlen in *; cbn [length] in Ll; lia).
      unfold zlen at 1. rewrite Nat2Z.id.
      destruct (drain_ok a_rows false l1 h1 nx1 s1 indices data nnz Hch1 Nd1 Rg1) as [nx2 [s2 [i2 [d2 [-> [Ln2 [Ls2 [Li2 [Ld2 Hv]]]]]]]]];
        try assumption; try lia.
      { intros x Hx. apply Hnx1; [|assumption]. rewrite Forall_forall in Rg1. apply Rg1. assumption. }
      { unfold zlen in *. cbn [length] in Ll. lia. }
      cbn [kbind].
      pose proof (sort_segment_length i2 d2 nnz (nnz + zlen l1) ltac:(lia)) as [S1 S2].
      destruct (sort_segment i2 d2 nnz (nnz + zlen l1)) as [i3 d3]. cbn [fst snd] in S1, S2.
      pose proof (zlen_nonneg l1).
      apply (IH (S a) m' (set_nth (Z.to_nat (i + 1)) indptr c') c' ip total); try assumption; try lia.
      + intros x Hx. destruct (Hmk x Hx) as [H1|H1]; [lia|]. specialize (Hbel x Hx). lia.
      + rewrite zlen_set_nth. assumption.
      + intros x Hx. rewrite (Hv x Hx). destruct (in_dec Z.eq_dec x l1) as [Hi|Hi]; [reflexivity|].
        destruct (Z.eq_dec (znth nx1 x) (-1)); [assumption|]. exfalso. apply Hi. apply Hnx1; assumption.
      + unfold zlen in *. cbn [length] in Ll. lia.
  Qed.

  Theorem dot_csc_ndarray_sparse_safe_proof :
    exists r, dot_csc_ndarray_sparse a_indices a_data a_indptr b a_rows bK bC = Done r.
  Proof.
    unfold dot_csc_ndarray_sparse, csc_ndarray_count_nnz. rewrite !zrange_rows.
    assert (Lp : zlen (repeat 0 (Z.to_nat (bC + 1))) = bC + 1) by (unfold zlen; rewrite repeat_length; lia).
    assert (Lm : zlen (repeat (-1) (Z.to_nat a_rows)) = a_rows) by (unfold zlen; rewrite repeat_length; lia).
    destruct (cscn_cols_ok (Z.to_nat bC) 0 (repeat (-1) (Z.to_nat a_rows)) (repeat 0 (Z.to_nat (bC + 1))) 0 ltac:(lia) Lm Lp)
      as [ip [cnt [Ec [Hc Lip]]]].
    rewrite Ec. cbn [kbind]. rewrite (wr_znth ip 0) by lia. cbn [kbind].
    destruct (dcns_cols_ok (Z.to_nat bC) 0 (repeat (-1) (Z.to_nat a_rows)) (repeat 0 (Z.to_nat (bC + 1))) 0 ip cnt
                (repeat (-1) (Z.to_nat a_rows)) (repeat 0 (Z.to_nat a_rows)) (repeat 0 (Z.to_nat cnt)) (repeat 0 (Z.to_nat cnt)) 0 Ec)
      as [[d i'] ->]; try assumption; try lia; try (unfold zlen; rewrite ?repeat_length; lia).
    - intros x Hx. rewrite znth_repeat by lia. cbn. lia.
    - intros x Hx. apply znth_repeat. lia.
    - cbn [kbind]. eexists; reflexivity.
  Qed.
End CscNdarrayP.

(* ================================================================= _compressed/convert.py kernels *)
Lemma uncompress_rows_ok is : forall indptr out,
  Forall (fun i => 0 <= i /\ i + 1 < zlen indptr) is -> exists r, uncompress_rows is indptr out = Done r.
Proof.
  induction is as [|i is IH]; intros indptr out H; cbn [uncompress_rows]; [eexists; reflexivity|].
  pose proof (Forall_inv H) as [H0 H1]. pose proof (Forall_inv_tail H) as H'.
  rewrite (rd_znth indptr i) by lia. cbn [kbind]. rewrite (rd_znth indptr (i + 1)) by lia. cbn [kbind].
  apply IH. assumption.
Qed.

Theorem uncompress_dimension_safe_proof :
  forall indptr, indptr <> [] -> 0 <= znth indptr (zlen indptr - 1) ->
  exists r, uncompress_dimension indptr = Done r.
Proof.
  intros indptr Hne Hlast. unfold uncompress_dimension.
  assert (0 < zlen indptr) by (destruct indptr; [congruence|rewrite zlen_cons; pose proof (zlen_nonneg indptr); lia]).
  rewrite (rd_last_znth indptr) by lia. cbn [kbind].
  destruct (Z.ltb_spec (znth indptr (zlen indptr - 1)) 0); [lia|].
  apply uncompress_rows_ok. apply Forall_forall. intros x Hx. apply zrange_In in Hx. lia.
Qed.

Lemma zprod_pos l : Forall (fun d => 0 < d) l -> 0 < zprod l.
Proof. induction 1; cbn; [lia|]. apply Z.mul_pos_pos; assumption. Qed.

Lemma Forall_skipn {A} (P : A -> Prop) n l : Forall P l -> Forall P (skipn n l).
Proof. intros H. apply Forall_forall. intros x Hx. rewrite Forall_forall in H. apply H. eapply In_skipn; eassumption. Qed.

Lemma skipn_add {A} (a b : nat) (l : list A) : skipn a (skipn b l) = skipn (a + b) l.
Proof.
  revert l; induction b as [|b IH]; intros l; [rewrite Nat.add_0_r; reflexivity|].
  destruct l as [|x l]; [destruct a; reflexivity|]. rewrite Nat.add_succ_r. cbn [skipn]. apply IH.
Qed.

Lemma tail_pos_prod shape t :
  Forall (fun d => 0 < d) (skipn 1 shape) -> 1 <= t -> zprod (skipn (Z.to_nat t) shape) <> 0.
Proof.
  intros H Ht. replace (Z.to_nat t) with (Z.to_nat (t - 1) + 1)%nat by lia. rewrite <- skipn_add.
  pose proof (zprod_pos _ (Forall_skipn _ (Z.to_nat (t - 1)) _ H)). lia.
Qed.

Lemma unravel_loop_ok fuel : forall i n shape out,
  1 <= i -> zlen out = zlen shape -> 0 < zlen shape -> Forall (fun d => 0 < d) (skipn 1 shape) ->
  Z.max 0 (zlen shape - i) < Z.of_nat fuel ->
  exists o, unravel_loop fuel i n shape out = Done o /\ zlen o = zlen shape.
Proof.
  induction fuel as [|f IH]; intros i n shape out Hi Lo Hs Hp Hf; [lia|]. cbn [unravel_loop].
  destruct (Z.ltb_spec i (zlen shape)) as [H1|H1]; cbn [andb].
  - destruct (Z.ltb_spec 0 n) as [H2|H2].
    + destruct (Z.eqb_spec (zprod (skipn (Z.to_nat i) shape)) 0) as [E|E]; [exfalso; exact (tail_pos_prod shape i Hp Hi E)|].
      rewrite (wr_znth out (i - 1)) by lia. cbn [kbind]. apply IH; try assumption; try lia. rewrite zlen_set_nth. assumption.
    + destruct (wr_last_ok out n ltac:(lia)) as [o [-> L]]. exists o. split; [reflexivity|]. unfold zlen in *. lia.
  - destruct (wr_last_ok out n ltac:(lia)) as [o [-> L]]. exists o. split; [reflexivity|]. unfold zlen in *. lia.
Qed.

Theorem unravel_index_safe_proof :
  forall (F : nat) (n : Z) (shape : list Z),
    shape <> [] -> Forall (fun d => 0 < d) (skipn 1 shape) -> zlen shape <= Z.of_nat F ->
    exists o, unravel_index F n shape = Done o /\ zlen o = zlen shape.
Proof.
  intros F n shape Hne Hp HF. unfold unravel_index.
  assert (0 < zlen shape) by (destruct shape; [congruence|rewrite zlen_cons; pose proof (zlen_nonneg shape); lia]).
  apply unravel_loop_ok; try assumption; try lia. unfold zlen. rewrite repeat_length. reflexivity.
Qed.

Lemma gather_ok a idx : Forall (fun k => 0 <= k < zlen a) idx -> exists r, gather a idx = Done r /\ zlen r = zlen idx.
Proof.
  induction 1 as [|k idx Hk Hi IH]; cbn [gather]; [exists []; split; reflexivity|].
  rewrite (rd_znth a k Hk). cbn [kbind]. destruct IH as [r [-> L]]. cbn [kbind].
  exists (znth a k :: r). split; [reflexivity|]. rewrite !zlen_cons, L. reflexivity.
Qed.

Lemma linearize_loop_ok F xs : forall i shape order rshape cshape lin c0 c1,
  shape <> [] -> Forall (fun d => 0 < d) (skipn 1 shape) -> zlen shape <= Z.of_nat F ->
  order <> [] -> Forall (fun k => 0 <= k < zlen shape) order ->
  zlen cshape = 2 -> Forall (fun d => 0 < d) (skipn 1 cshape) -> 2 <= Z.of_nat F ->
  0 <= i -> zlen lin = i + zlen xs -> zlen c0 = i + zlen xs -> zlen c1 = i + zlen xs ->
  exists r, linearize_loop F xs i shape order rshape cshape lin c0 c1 = Done r.
Proof.
  induction xs as [|n xs IH]; intros i shape order rshape cshape lin c0 c1 Hs Hp HF Ho Hor Hc Hcp HF2 Hi L0 L1 L2;
    cbn [linearize_loop]; [eexists; reflexivity|].
  rewrite zlen_cons in *. pose proof (zlen_nonneg xs).
  destruct (unravel_index_safe_proof F n shape Hs Hp HF) as [cur [-> Lc]]. cbn [kbind].
  destruct (gather_ok cur order) as [ct [-> Lt]]; [rewrite Lc; assumption|]. cbn [kbind].
  assert (0 < zlen order) by (destruct order; [congruence|rewrite zlen_cons; pose proof (zlen_nonneg order); lia]).
  unfold ravel_multi_index. rewrite (rd_last_znth ct) by lia. cbn [kbind].
  rewrite (wr_znth lin i) by lia. cbn [kbind].
  assert (Hcs : cshape <> []) by (intros ->; unfold zlen in Hc; cbn in Hc; lia).
  destruct (unravel_index_safe_proof F (ravel_loop (removelast ct) 1 rshape 0 + znth ct (zlen ct - 1)) cshape Hcs Hcp ltac:(lia))
    as [col [-> Lcol]]. cbn [kbind].
  rewrite Lcol, Hc. change (2 =? 2) with true. cbn [negb].
  rewrite (rd_znth col 0) by lia. cbn [kbind]. rewrite (rd_znth col 1) by lia. cbn [kbind].
  rewrite (wr_znth c0 i) by lia. cbn [kbind]. rewrite (wr_znth c1 i) by lia. cbn [kbind].
  apply IH; try assumption; try lia; rewrite zlen_set_nth; lia.
Qed.

Theorem linearize_safe_proof :
  forall (F : nat) (x_indices shape order rshape cshape : list Z),
    shape <> [] -> Forall (fun d => 0 < d) (skipn 1 shape) ->
    order <> [] -> Forall (fun k => 0 <= k < zlen shape) order ->
    zlen cshape = 2 -> Forall (fun d => 0 < d) (skipn 1 cshape) ->
    Z.of_nat F = Z.max 2 (zlen shape) ->
    exists r, linearize F x_indices shape order rshape cshape = Done r.
Proof.
  intros F xs shape order rshape cshape Hs Hp Ho Hor Hc Hcp HF. unfold linearize.
  apply linearize_loop_ok; try assumption; try lia; unfold zlen; rewrite repeat_length; lia.
Qed.

Example gcxs_kernels_example :
  (* [[1,2],[0,3]] @ [[0,4],[5,0]] in CSR *)
  dot_csr_csr [0; 1; 1] [1; 2; 3] [0; 2; 3] [1; 0] [4; 5] [0; 1; 2] 2 2 = Done ([10; 4; 15], [0; 1; 0], [0; 2; 3]) /\
  csr_csr_count_nnz [0; 1; 1] [0; 2; 3] [1; 0] [0; 1; 2] 2 2 = Done 3 /\
  uncompress_dimension [0; 2; 2; 3] = Done [0; 0; 2] /\
  unravel_index 3 17 [2; 3; 4] = Done [1; 1; 1] /\
  linearize 3 [5; 7] [2; 2; 2] [2; 0; 1] [2; 2; 2] [2; 4] = Done ([6; 7], [1; 1], [2; 3]).
Proof. repeat split; reflexivity. Qed.
