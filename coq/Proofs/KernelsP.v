(* Proofs/KernelsP.v — termination (explicit fuel bounds, by decreasing measures), memory safety
   (no OutOfBounds) and the refutations for the kernels of Model/Kernels.v. *)
From Coq Require Import ZArith List Bool Lia ZifyBool.
From Verif Require Import Kernels.
Import ListNotations.
Open Scope Z_scope.

(* ================================================================= checked accesses *)
Lemma zlen_nonneg {A} (l : list A) : 0 <= zlen l.
Proof. unfold zlen. lia. Qed.

Lemma zlen_cons {A} (x : A) l : zlen (x :: l) = zlen l + 1.
Proof. unfold zlen. cbn [length]. lia. Qed.

Lemma zlen_app {A} (l1 l2 : list A) : zlen (l1 ++ l2) = zlen l1 + zlen l2.
Proof. unfold zlen. rewrite app_length. lia. Qed.

Lemma rd_cases {A} (l : list A) i : (exists v, rd l i = Done v) \/ rd l i = OutOfBounds.
Proof.
  unfold rd. destruct (_ || _); [right; reflexivity|].
  destruct (nth_error _ _); [left; eexists; reflexivity|right; reflexivity].
Qed.

Lemma rd_ok {A} (l : list A) i :
  0 <= i < zlen l -> exists v, rd l i = Done v /\ nth_error l (Z.to_nat i) = Some v.
Proof.
  intros H. unfold rd.
  destruct (Z.ltb_spec i 0); [lia|].
  destruct (Z.ltb_spec i 0); [lia|]. destruct (Z.leb_spec (zlen l) i); [lia|]. cbn.
  destruct (nth_error l (Z.to_nat i)) eqn:E; [eexists; split; reflexivity|].
  apply nth_error_None in E. unfold zlen in *. lia.
Qed.

Lemma rd_last_ok {A} (l : list A) :
  0 < zlen l -> exists v, rd l (-1) = Done v /\ nth_error l (Z.to_nat (zlen l - 1)) = Some v.
Proof.
  intros H. unfold rd. cbn [Z.ltb Z.compare]. replace (-1 + zlen l) with (zlen l - 1) by lia.
  destruct (Z.ltb_spec (zlen l - 1) 0); [lia|]. destruct (Z.leb_spec (zlen l) (zlen l - 1)); [lia|]. cbn.
  destruct (nth_error l (Z.to_nat (zlen l - 1))) eqn:E; [eexists; split; reflexivity|].
  apply nth_error_None in E. unfold zlen in *. lia.
Qed.

Lemma rd_Done_nth {A} (l : list A) i v :
  0 <= i -> rd l i = Done v -> i < zlen l /\ nth_error l (Z.to_nat i) = Some v.
Proof.
  intros Hi. unfold rd. destruct (Z.ltb_spec i 0); [lia|].
  destruct (Z.ltb_spec i 0); [lia|]. destruct (Z.leb_spec (zlen l) i); cbn; [discriminate|].
  destruct (nth_error l (Z.to_nat i)); [|discriminate]. intros E; inversion E; subst. split; [lia|reflexivity].
Qed.

Lemma set_nth_length {A} n (l : list A) v : length (set_nth n l v) = length l.
Proof. revert n; induction l as [|x r IH]; intros [|n]; cbn; auto. Qed.

Lemma set_nth_Forall {A} (P : A -> Prop) n l v : Forall P l -> P v -> Forall P (set_nth n l v).
Proof.
  intros H Hv. revert n; induction H as [|x r Hx Hr IH]; intros [|n]; cbn; constructor; auto.
Qed.

Lemma nth_error_Forall {A} (P : A -> Prop) l n v : Forall P l -> nth_error l n = Some v -> P v.
Proof. intros H E. rewrite Forall_forall in H. apply H. eapply nth_error_In; eassumption. Qed.

Lemma upd_ok {A} (l : list A) i (f : A -> kres A) :
  0 <= i < zlen l ->
  exists v, nth_error l (Z.to_nat i) = Some v /\
            upd l i f = (w <~ f v ;; Done (set_nth (Z.to_nat i) l w)).
Proof.
  intros H. unfold upd.
  destruct (Z.ltb_spec i 0); [lia|].
  destruct (Z.ltb_spec i 0); [lia|]. destruct (Z.leb_spec (zlen l) i); [lia|]. cbn.
  destruct (nth_error l (Z.to_nat i)) eqn:E; [eexists; split; reflexivity|].
  apply nth_error_None in E. unfold zlen in *. lia.
Qed.

Lemma wr_last_ok {A} (l : list A) v :
  0 < zlen l -> exists l', wr l (-1) v = Done l' /\ length l' = length l.
Proof.
  intros H. unfold wr, upd. cbn [Z.ltb Z.compare]. replace (-1 + zlen l) with (zlen l - 1) by lia.
  destruct (Z.ltb_spec (zlen l - 1) 0); [lia|]. destruct (Z.leb_spec (zlen l) (zlen l - 1)); [lia|]. cbn.
  destruct (nth_error l (Z.to_nat (zlen l - 1))) eqn:E.
  - cbn. eexists; split; [reflexivity|apply set_nth_length].
  - apply nth_error_None in E. unfold zlen in *. lia.
Qed.

Lemma wr_ok {A} (l : list A) i v :
  0 <= i < zlen l -> exists l', wr l i v = Done l' /\ length l' = length l.
Proof.
  intros H. unfold wr. destruct (upd_ok l i (fun _ => Done v) H) as [x [_ ->]]. cbn.
  eexists; split; [reflexivity|apply set_nth_length].
Qed.

Definition mat_ok (R C : Z) (m : list (list Z)) : Prop :=
  zlen m = R /\ Forall (fun r => zlen r = C) m.

Lemma zeros2_ok R C : 0 <= R -> 0 <= C -> mat_ok R C (zeros2 R C).
Proof.
  intros HR HC. unfold mat_ok, zeros2, zlen. rewrite repeat_length. split; [lia|].
  apply Forall_forall. intros x Hx. apply repeat_spec in Hx. subst. rewrite repeat_length. lia.
Qed.

Lemma rd2_ok R C m i j :
  mat_ok R C m -> 0 <= i < R -> 0 <= j < C -> exists v, rd2 m i j = Done v.
Proof.
  intros [HR HC] Hi Hj. unfold rd2.
  destruct (rd_ok m i ltac:(lia)) as [r [-> Hn]]. cbn.
  pose proof (nth_error_Forall _ _ _ _ HC Hn) as Hl. cbn in Hl.
  destruct (rd_ok r j ltac:(lia)) as [v [-> _]]. eexists; reflexivity.
Qed.

Lemma upd2_ok R C m i j f :
  mat_ok R C m -> 0 <= i < R -> 0 <= j < C -> exists m', upd2 m i j f = Done m' /\ mat_ok R C m'.
Proof.
  intros [HR HC] Hi Hj. unfold upd2.
  destruct (upd_ok m i (fun r => upd r j (fun v => Done (f v))) ltac:(lia)) as [r [Hn ->]].
  pose proof (nth_error_Forall _ _ _ _ HC Hn) as Hl. cbn in Hl.
  destruct (upd_ok r j (fun v => Done (f v)) ltac:(lia)) as [v [Hv ->]]. cbn.
  eexists; split; [reflexivity|]. split.
  - unfold zlen in *. rewrite set_nth_length. assumption.
  - apply set_nth_Forall; [assumption|]. unfold zlen in *. rewrite set_nth_length. assumption.
Qed.

Lemma zrange_nil C : C <= 0 -> zrange C = [].
Proof. intros H. unfold zrange. replace (Z.to_nat C) with O by lia. reflexivity. Qed.

Lemma zrange_nonnil C : 0 < C -> zrange C <> [].
Proof.
  intros H. unfold zrange. destruct (Z.to_nat C) eqn:E; [lia|]. cbn. discriminate.
Qed.

Lemma zrange_In n i : In i (zrange n) <-> 0 <= i < n.
Proof.
  unfold zrange. rewrite in_map_iff. split.
  - intros [k [<- Hk]]. apply in_seq in Hk. lia.
  - intros H. exists (Z.to_nat i). split; [lia|]. apply in_seq. lia.
Qed.

Lemma rd2_cases m i j : (exists v, rd2 m i j = Done v) \/ rd2 m i j = OutOfBounds.
Proof.
  unfold rd2. destruct (rd_cases m i) as [[r ->]| ->]; cbn [kbind]; [apply rd_cases|right; reflexivity].
Qed.

Lemma upd_cases {A} (l : list A) i (f : A -> kres A) :
  (forall v, (exists w, f v = Done w) \/ f v = OutOfBounds) ->
  (exists l', upd l i f = Done l') \/ upd l i f = OutOfBounds.
Proof.
  intros Hf. unfold upd. destruct (_ || _); [right; reflexivity|].
  destruct (nth_error _ _) as [v|]; [|right; reflexivity].
  destruct (Hf v) as [[w ->]| ->]; cbn [kbind]; [left; eexists; reflexivity|right; reflexivity].
Qed.

Lemma wr_cases {A} (l : list A) i v : (exists l', wr l i v = Done l') \/ wr l i v = OutOfBounds.
Proof. unfold wr. apply upd_cases. intros x. left. eexists; reflexivity. Qed.

Lemma upd2_cases m i j f : (exists m', upd2 m i j f = Done m') \/ upd2 m i j f = OutOfBounds.
Proof.
  unfold upd2. apply upd_cases. intros r. apply upd_cases. intros v. left. eexists; reflexivity.
Qed.

(* split the checked access at the head of the outermost kbind: Done v | OutOfBounds *)
Ltac kacc :=
  match goal with
  | |- context [kbind (rd ?l ?i) _] =>
    let v := fresh "v" in let E := fresh "E" in
    destruct (rd_cases l i) as [[v E]|E]; rewrite E; cbn [kbind]
  | |- context [kbind (rd2 ?m ?i ?j) _] =>
    let v := fresh "v" in let E := fresh "E" in
    destruct (rd2_cases m i j) as [[v E]|E]; rewrite E; cbn [kbind]
  | |- context [kbind (upd2 ?m ?i ?j ?f) _] =>
    let v := fresh "m" in let E := fresh "E" in
    destruct (upd2_cases m i j f) as [[v E]|E]; rewrite E; cbn [kbind]
  | |- context [kbind (wr ?l ?i ?x) _] =>
    let v := fresh "l" in let E := fresh "E" in
    destruct (wr_cases l i x) as [[v E]|E]; rewrite E; cbn [kbind]
  end.

(* destruct the scrutinee of the outermost kbind *)
Ltac kstep :=
  match goal with
  | |- context [kbind ?m _] =>
    lazymatch m with
    | context [kbind _ _] => fail
    | _ => let E := fresh "E" in destruct m eqn:E; cbn [kbind]
    end
  end.

(* ================================================================= _dot_coo_ndarray *)
Section DotCooNdarrayP.
  Variables (rows cols data : list Z) (arr2 : list (list Z)) (R C : Z).
  Variable F : nat.
  Let n := zlen data.

  (* progress and boundedness of the inner while; never out of fuel when the fuel exceeds the
     distance to the end of data *)
  Lemma dcn_inner_progress fuel oidx1 oidx2 d out :
    0 <= d -> Z.max 0 (n - d) < Z.of_nat fuel ->
    match dcn_inner rows cols data arr2 fuel oidx1 oidx2 d out with
    | Done (d', _) => d <= d' /\ d' <= Z.max d n /\ (d < n -> rd rows d = Done oidx1 -> d < d')
    | OutOfFuel => False
    | _ => True
    end.
  Proof.
    revert d out. induction fuel as [|f IH]; intros d out Hd Hf; [subst n; pose proof (zlen_nonneg data); lia|].
    cbn [dcn_inner]. fold n.
    destruct (Z.ltb_spec d n) as [Hlt|Hge]; [|lia].
    destruct (rd_cases rows d) as [[r Er]|Er]; rewrite Er; cbn [kbind]; [|exact I].
    destruct (Z.eqb_spec r oidx1) as [->|Hne].
    - repeat (kacc; try exact I).
      specialize (IH (d + 1) m ltac:(lia) ltac:(lia)).
      destruct (dcn_inner _ _ _ _ f oidx1 oidx2 (d + 1) m) as [[d' o']| | |]; try exact I; [|exact IH].
      lia.
    - split; [lia|]. split; [lia|]. intros _ E. congruence.
  Qed.

  Lemma dcn_for_progress cs oidx1 dcur d out :
    0 <= dcur -> Z.max 0 (n - dcur) < Z.of_nat F ->
    match dcn_for rows cols data arr2 F cs oidx1 dcur d out with
    | Done (d', _) =>
      (cs = [] -> d' = d) /\
      (cs <> [] -> dcur <= d' /\ d' <= Z.max dcur n /\ (dcur < n -> rd rows dcur = Done oidx1 -> dcur < d'))
    | OutOfFuel => False
    | _ => True
    end.
  Proof.
    intros Hd Hf. revert d out. induction cs as [|c cs IH]; intros d out; cbn [dcn_for].
    - split; [reflexivity|congruence].
    - pose proof (dcn_inner_progress F oidx1 c dcur out Hd Hf) as Hi.
      destruct (dcn_inner _ _ _ _ F oidx1 c dcur out) as [[d1 o1]| | |]; cbn [kbind]; try exact I; [|exact Hi].
      specialize (IH d1 o1).
      destruct (dcn_for _ _ _ _ F cs oidx1 dcur d1 o1) as [[d' o']| | |]; try exact I; [|exact IH].
      destruct IH as [IH1 IH2]. split; [discriminate|]. intros _.
      destruct cs as [|c' cs']; [rewrite (IH1 eq_refl); exact Hi|apply IH2; discriminate].
  Qed.

  Lemma dcn_outer_nofuel fuel d out :
    0 < C -> 0 <= d -> Z.max 0 (n - d) < Z.of_nat fuel -> n < Z.of_nat F ->
    dcn_outer rows cols data arr2 C F fuel d out <> OutOfFuel.
  Proof.
    intros HC. revert d out. induction fuel as [|f IH]; intros d out Hd Hf HF;
      [subst n; pose proof (zlen_nonneg data); lia|].
    cbn [dcn_outer]. fold n.
    destruct (Z.ltb_spec d n) as [Hlt|Hge]; [|discriminate].
    destruct (rd_cases rows d) as [[r Er]|Er]; rewrite Er; cbn [kbind]; [|discriminate].
    pose proof (dcn_for_progress (zrange C) r d d out Hd ltac:(lia)) as Hp.
    destruct (dcn_for _ _ _ _ F (zrange C) r d d out) as [[d' o']| | |]; cbn [kbind]; try discriminate; [|contradiction].
    destruct Hp as [_ Hp]. specialize (Hp (zrange_nonnil C HC)). destruct Hp as [H1 [H2 H3]].
    specialize (H3 Hlt Er). apply IH; lia.
  Qed.

  (* the guard the CALLER has to establish: the output has at least one column (or there is
     nothing stored); fuel |data| + 1 then suffices for every loop *)
  Theorem dot_coo_ndarray_terminates_proof :
    0 < C \/ data = [] ->
    (Z.of_nat F = zlen data + 1) ->
    dot_coo_ndarray rows cols data arr2 R C F <> OutOfFuel.
  Proof.
    intros [HC|Hnil] HF; unfold dot_coo_ndarray.
    - apply dcn_outer_nofuel; fold n; lia.
    - subst data. destruct F as [|f]; [cbn in HF; lia|]. cbn. discriminate.
  Qed.

  (* D3: with no output column the for loop body never runs, didx1 never advances *)
  Lemma dcn_outer_diverges fuel out :
    C <= 0 -> rows <> [] -> data <> [] ->
    dcn_outer rows cols data arr2 C F fuel 0 out = OutOfFuel.
  Proof.
    intros HC Hr Hdt. induction fuel as [|f IH]; [reflexivity|].
    cbn [dcn_outer].
    assert (0 < zlen data) by (destruct data; [congruence|rewrite zlen_cons; pose proof (zlen_nonneg l); lia]).
    assert (0 < zlen rows) by (destruct rows; [congruence|rewrite zlen_cons; pose proof (zlen_nonneg l); lia]).
    destruct (Z.ltb_spec 0 (zlen data)); [|lia].
    destruct (rd_ok rows 0 ltac:(lia)) as [r [-> _]]. cbn [kbind].
    rewrite (zrange_nil C HC). cbn [dcn_for kbind]. exact IH.
  Qed.

  (* memory safety *)
  Variable K : Z.
  Hypothesis Hrows : length rows = length data.
  Hypothesis Hcols : length cols = length data.
  Hypothesis Hrows_rng : Forall (fun r => 0 <= r < R) rows.
  Hypothesis Hcols_rng : Forall (fun c => 0 <= c < K) cols.
  Hypothesis Harr2 : mat_ok C K arr2.

  Lemma dcn_inner_in_bounds fuel oidx1 oidx2 d out :
    0 <= d -> 0 <= oidx2 < C -> mat_ok R C out ->
    match dcn_inner rows cols data arr2 fuel oidx1 oidx2 d out with
    | Done (d', out') => d <= d' /\ mat_ok R C out'
    | OutOfBounds => False
    | _ => True
    end.
  Proof.
    revert d out. induction fuel as [|f IH]; intros d out Hd Ho Hm; [exact I|].
    cbn [dcn_inner]. fold n.
    destruct (Z.ltb_spec d n) as [Hlt|Hge]; [|split; [lia|exact Hm]].
    assert (Hdr : 0 <= d < zlen rows) by (unfold zlen in *; subst n; unfold zlen in Hlt; lia).
    assert (Hdc : 0 <= d < zlen cols) by (unfold zlen in *; subst n; unfold zlen in Hlt; lia).
    destruct (rd_ok rows d Hdr) as [r [-> Hnr]]. cbn [kbind].
    pose proof (nth_error_Forall _ _ _ _ Hrows_rng Hnr) as Hr. cbn in Hr.
    destruct (Z.eqb_spec r oidx1) as [<-|Hne]; [|split; [lia|exact Hm]].
    destruct (rd_ok data d ltac:(subst n; lia)) as [dv [-> _]]. cbn [kbind].
    destruct (rd_ok cols d Hdc) as [c [-> Hnc]]. cbn [kbind].
    pose proof (nth_error_Forall _ _ _ _ Hcols_rng Hnc) as Hc. cbn in Hc.
    destruct (rd2_ok C K arr2 oidx2 c Harr2 Ho Hc) as [b ->]. cbn [kbind].
    destruct (upd2_ok R C out r oidx2 (fun v => v + dv * b) Hm Hr Ho) as [out' [-> Hm']]. cbn [kbind].
    specialize (IH (d + 1) out' ltac:(lia) Ho Hm').
    destruct (dcn_inner _ _ _ _ f r oidx2 (d + 1) out') as [[d' o']| | |]; try exact I; [|exact IH].
    split; [lia|apply IH].
  Qed.

  Lemma dcn_for_in_bounds cs oidx1 dcur d out :
    0 <= dcur -> 0 <= d -> Forall (fun c => 0 <= c < C) cs -> mat_ok R C out ->
    match dcn_for rows cols data arr2 F cs oidx1 dcur d out with
    | Done (d', out') => 0 <= d' /\ mat_ok R C out'
    | OutOfBounds => False
    | _ => True
    end.
  Proof.
    intros Hdc Hd Hcs. revert d Hd out. induction Hcs as [|c cs Hc Hcs IH]; intros d Hd out Hm; cbn [dcn_for];
      [split; assumption|].
    pose proof (dcn_inner_in_bounds F oidx1 c dcur out Hdc Hc Hm) as Hi.
    destruct (dcn_inner _ _ _ _ F oidx1 c dcur out) as [[d1 o1]| | |]; cbn [kbind]; try exact I; [|exact Hi].
    apply IH; [lia|apply Hi].
  Qed.

  Lemma dcn_outer_in_bounds fuel d out :
    0 <= d -> mat_ok R C out ->
    dcn_outer rows cols data arr2 C F fuel d out <> OutOfBounds.
  Proof.
    revert d out. induction fuel as [|f IH]; intros d out Hd Hm; [discriminate|].
    cbn [dcn_outer]. fold n.
    destruct (Z.ltb_spec d n) as [Hlt|Hge]; [|discriminate].
    assert (Hdr : 0 <= d < zlen rows) by (unfold zlen in *; subst n; unfold zlen in Hlt; lia).
    destruct (rd_ok rows d Hdr) as [r [-> Hnr]]. cbn [kbind].
    assert (Hcs : Forall (fun c => 0 <= c < C) (zrange C)).
    { apply Forall_forall. intros x Hx. apply zrange_In in Hx. exact Hx. }
    pose proof (dcn_for_in_bounds (zrange C) r d d out Hd Hd Hcs Hm) as Hf.
    destruct (dcn_for _ _ _ _ F (zrange C) r d d out) as [[d' o']| | |]; cbn [kbind]; try discriminate; [|contradiction].
    apply IH; apply Hf.
  Qed.

  Theorem dot_coo_ndarray_in_bounds_proof :
    0 <= R -> 0 <= C -> dot_coo_ndarray rows cols data arr2 R C F <> OutOfBounds.
  Proof.
    intros HR HC. unfold dot_coo_ndarray. apply dcn_outer_in_bounds; [lia|apply zeros2_ok; assumption].
  Qed.
End DotCooNdarrayP.
