(* Proofs/Crc32P.v — CRC-32 detects every single-byte change of a message, by injectivity of the shift
   register: one step is injective on 32-bit states (the polynomial has its top bit set, so the top bit of the
   result tells whether the low bit was shifted out), xor with a byte is injective, hence two messages that
   differ in exactly one byte reach different states there and keep different states to the end. *)
From Coq Require Import ZArith List Bool String Lia.
From Verif Require Import Crc32.
Import ListNotations.
Open Scope Z_scope.

Definition st (s : Z) : Prop := 0 <= s < 2 ^ 32.

Lemma log2_lt_32 a : st a -> Z.log2 a < 32.
Proof.
  intros [H0 H1]. destruct (Z.eq_dec a 0) as [-> | Hn]; [cbn; lia |].
  apply Z.log2_lt_pow2; lia.
Qed.

Lemma lxor_st a b : st a -> st b -> st (Z.lxor a b).
Proof.
  intros Ha Hb. assert (H0 : 0 <= Z.lxor a b) by (apply Z.lxor_nonneg; unfold st in *; lia).
  split; [exact H0 |].
  destruct (Z.eq_dec (Z.lxor a b) 0) as [E | Hn]; [rewrite E; reflexivity |].
  apply Z.log2_lt_pow2; [lia |].
  pose proof (Z.log2_lxor a b (proj1 Ha) (proj1 Hb)). pose proof (log2_lt_32 a Ha). pose proof (log2_lt_32 b Hb). lia.
Qed.

Lemma shiftr1_st s : st s -> 0 <= Z.shiftr s 1 < 2 ^ 31.
Proof.
  intros [H0 H1]. rewrite Z.shiftr_div_pow2 by lia. change (2 ^ 1) with 2.
  change (2 ^ 32) with (2 * 2 ^ 31) in H1. split; [apply Z.div_pos; lia | apply Z.div_lt_upper_bound; lia].
Qed.

Lemma poly_st : st crc_poly.
Proof. unfold st, crc_poly. cbn. lia. Qed.

Lemma step_st s : st s -> st (crc_step s).
Proof.
  intros Hs. pose proof (shiftr1_st s Hs) as H. assert (Hh : st (Z.shiftr s 1)) by (unfold st; change (2 ^ 32) with (2 * 2 ^ 31); lia).
  unfold crc_step. destruct (Z.odd s); [apply lxor_st; [exact Hh | exact poly_st] | exact Hh].
Qed.

Lemma testbit31_small x : 0 <= x < 2 ^ 31 -> Z.testbit x 31 = false.
Proof.
  intros [H0 H1]. destruct (Z.eq_dec x 0) as [-> | Hn]; [apply Z.bits_0 |].
  apply Z.bits_above_log2; [lia |]. apply Z.log2_lt_pow2; lia.
Qed.

Lemma recover s : s = 2 * Z.shiftr s 1 + Z.b2z (Z.odd s).
Proof. rewrite <- Z.div2_spec. apply Z.div2_odd. Qed.

Lemma lxor_cancel_r a b c : Z.lxor a c = Z.lxor b c -> a = b.
Proof.
  intros H. apply (f_equal (fun x => Z.lxor x c)) in H.
  now rewrite !Z.lxor_assoc, Z.lxor_nilpotent, !Z.lxor_0_r in H.
Qed.

Lemma lxor_cancel_l a b c : Z.lxor c a = Z.lxor c b -> a = b.
Proof. rewrite !(Z.lxor_comm c). apply lxor_cancel_r. Qed.

Lemma step_inj a b : st a -> st b -> crc_step a = crc_step b -> a = b.
Proof.
  intros Ha Hb E. pose proof (shiftr1_st a Ha) as Sa. pose proof (shiftr1_st b Hb) as Sb.
  assert (P31 : Z.testbit crc_poly 31 = true) by reflexivity.
  unfold crc_step in E. rewrite (recover a), (recover b).
  destruct (Z.odd a) eqn:Oa, (Z.odd b) eqn:Ob.
  - apply lxor_cancel_r in E. now rewrite E.
  - exfalso. apply (f_equal (fun x => Z.testbit x 31)) in E.
    rewrite Z.lxor_spec, P31, (testbit31_small _ Sa), (testbit31_small _ Sb) in E. discriminate.
  - exfalso. apply (f_equal (fun x => Z.testbit x 31)) in E.
    rewrite Z.lxor_spec, P31, (testbit31_small _ Sa), (testbit31_small _ Sb) in E. discriminate.
  - now rewrite E.
Qed.

Lemma byte_st b : byte_ok b -> st b.
Proof. unfold byte_ok, st. intros. change (2 ^ 32) with 4294967296. lia. Qed.

Lemma crc_byte_st s b : st s -> byte_ok b -> st (crc_byte s b).
Proof.
  intros Hs Hb. unfold crc_byte. repeat apply step_st. apply lxor_st; [exact Hs | now apply byte_st].
Qed.

Ltac peel E :=
  apply step_inj in E; [| repeat apply step_st; apply lxor_st; auto using byte_st ..].

(* same byte, different states -> different states *)
Lemma crc_byte_inj_state s s' b : st s -> st s' -> byte_ok b -> crc_byte s b = crc_byte s' b -> s = s'.
Proof.
  intros Hs Hs' Hb E. unfold crc_byte in E. do 8 peel E. now apply lxor_cancel_r in E.
Qed.

(* same state, different bytes -> different states *)
Lemma crc_byte_inj_byte s b b' : st s -> byte_ok b -> byte_ok b' -> crc_byte s b = crc_byte s b' -> b = b'.
Proof.
  intros Hs Hb Hb' E. unfold crc_byte in E. do 8 peel E. now apply lxor_cancel_l in E.
Qed.

Lemma update_st msg : forall s, st s -> bytes_ok msg -> st (crc32_update s msg).
Proof.
  induction msg as [| b r IH]; intros s Hs Hm; [exact Hs |]. inversion Hm; subst.
  cbn. apply IH; [now apply crc_byte_st | assumption].
Qed.

Lemma update_inj_state msg : forall s s', st s -> st s' -> bytes_ok msg ->
  crc32_update s msg = crc32_update s' msg -> s = s'.
Proof.
  induction msg as [| b r IH]; intros s s' Hs Hs' Hm E; [exact E |]. inversion Hm; subst. cbn in E.
  apply IH in E; auto using crc_byte_st. eapply crc_byte_inj_state; eassumption.
Qed.

Lemma update_app s a b : crc32_update s (a ++ b) = crc32_update (crc32_update s a) b.
Proof. apply fold_left_app. Qed.

Lemma mask_st : st crc_mask.
Proof. unfold st, crc_mask. cbn. lia. Qed.

(* two messages that differ in exactly one byte have different CRC-32 *)
Lemma crc32_detects_one_byte_proof (pre suf : list Z) (b b' : Z) :
  bytes_ok pre -> bytes_ok suf -> byte_ok b -> byte_ok b' -> b <> b' ->
  crc32 (pre ++ b :: suf) <> crc32 (pre ++ b' :: suf).
Proof.
  intros Hp Hs Hb Hb' Hne E. unfold crc32 in E. apply lxor_cancel_r in E.
  rewrite !update_app in E. cbn [crc32_update fold_left] in E.
  fold (crc32_update (crc_byte (crc32_update crc_mask pre) b) suf) in E.
  fold (crc32_update (crc_byte (crc32_update crc_mask pre) b') suf) in E.
  assert (Hst : st (crc32_update crc_mask pre)) by (apply update_st; [exact mask_st | exact Hp]).
  apply update_inj_state in E; auto using crc_byte_st.
  apply crc_byte_inj_byte in E; auto.
Qed.

Lemma split_at (msg : list Z) : forall i, (i < List.length msg)%nat ->
  msg = firstn i msg ++ nth i msg 0 :: skipn (S i) msg.
Proof.
  induction msg as [| a r IH]; intros i Hi; [cbn in Hi; lia |].
  destruct i as [| i]; [reflexivity |]. cbn [firstn nth skipn app]. f_equal. apply IH. cbn in Hi. lia.
Qed.

(* CRC-32 detects every single-byte change *)
Lemma crc32_detects_single_byte_proof (msg : list Z) (i : nat) (b : Z) :
  bytes_ok msg -> (i < List.length msg)%nat -> byte_ok b -> b <> nth i msg 0 ->
  crc32 (set_byte msg i b) <> crc32 msg.
Proof.
  intros Hm Hi Hb Hne. unfold set_byte. rewrite (split_at msg i Hi) at 3.
  pose proof Hm as Hm'. unfold bytes_ok in Hm'. rewrite (split_at msg i Hi) in Hm'.
  apply Forall_app in Hm' as [Hp Hr]. inversion Hr as [| ? ? Hn Hs]; subst.
  apply crc32_detects_one_byte_proof; assumption.
Qed.

(* ---- testzip over an archive whose recorded CRCs are those of the payloads *)
Lemma testzip_passes_written (a : zarchive) : written_ok a -> testzip_passes a = true.
Proof.
  unfold written_ok, testzip_passes. induction 1 as [| m r [Hc _] _ IH]; [reflexivity |].
  cbn [forallb]. unfold member_verifies at 1. rewrite Hc, Z.eqb_refl. exact IH.
Qed.

Lemma testzip_detects_corruption_proof (a : zarchive) : forall (k i : nat) (b : Z) (m : zmember),
  written_ok a -> nth_error a k = Some m -> (i < List.length (zm_payload m))%nat ->
  byte_ok b -> b <> nth i (zm_payload m) 0 ->
  testzip_passes (corrupt a k i b) = false.
Proof.
  induction a as [| m0 r IH]; intros k i b m Hw Hk Hi Hb Hne; [destruct k; discriminate Hk |].
  inversion Hw as [| ? ? [Hc Hbytes] Hr]; subst.
  destruct k as [| k]; cbn [nth_error] in Hk.
  - injection Hk as ->. cbn [corrupt testzip_passes forallb]. unfold member_verifies at 1. cbn [zm_payload zm_crc].
    rewrite Hc. destruct (Z.eqb_spec (crc32 (set_byte (zm_payload m) i b)) (crc32 (zm_payload m))) as [E | _]; [| reflexivity].
    exfalso. revert E. now apply crc32_detects_single_byte_proof.
  - cbn [corrupt testzip_passes forallb]. fold (testzip_passes (corrupt r k i b)).
    rewrite (IH k i b m Hr Hk Hi Hb Hne). apply andb_false_r.
Qed.

(* the known value "123456789" -> 0xCBF43926 *)
Lemma crc32_check_value : crc32 [49; 50; 51; 52; 53; 54; 55; 56; 57] = 3421780262.
Proof. reflexivity. Qed.
