(* Proofs/FillRulesP.v — lemmas about the fill guards (generated loop bodies), the abstract operation
   semantics over call-site rows, the generated table, and the coercion / mix rules (property C07). *)
From Coq Require Import ZArith List Bool String Lia.
From Verif Require Import Py PyExt PyFill S_fill FillRules.
From Verif Require Shape COO.
Import ListNotations.
Open Scope Z_scope.
Open Scope string_scope.

(* ------------------------------------------------------------------ the generated loop bodies *)
Lemma zero_one_int z : s_check_zero_one (VInt z) = if (z =? 0)%Z then Ok VNone else Raise ValueError.
Proof. unfold s_check_zero_one, strict_eqb. cbn. unfold strict_eqb. destruct (z =? 0)%Z; reflexivity. Qed.

Lemma zero_one_none : s_check_zero_one VNone = Ok VNone.
Proof. reflexivity. Qed.

Lemma zero_one_bool b : s_check_zero_one (VBool b) = if b then Raise ValueError else Ok VNone.
Proof. destruct b; reflexivity. Qed.

(* an operand of a guard: no fill_value attribute (VNone), an integer-token fill, or a bool fill *)
Definition is_operand (a : pyv) : Prop := a = VNone \/ (exists z, a = VInt z) \/ (exists b, a = VBool b).
Definition fill_nonzero (a : pyv) : Prop := (exists z, a = VInt z /\ z <> 0) \/ a = VBool true.
Definition fill_zero_or_dense (a : pyv) : Prop := a = VNone \/ a = VInt 0 \/ a = VBool false.

Lemma zero_one_benign a : is_operand a -> s_check_zero_one a = Ok VNone \/ s_check_zero_one a = Raise ValueError.
Proof.
  intros [->|[[z ->]|[b ->]]].
  - left; reflexivity.
  - rewrite zero_one_int. destruct (z =? 0)%Z; auto.
  - rewrite zero_one_bool. destruct b; auto.
Qed.

Lemma zero_one_raises a : fill_nonzero a -> s_check_zero_one a = Raise ValueError.
Proof.
  intros [[z [-> Hz]]| ->].
  - rewrite zero_one_int. destruct (Z.eqb_spec z 0); [contradiction|reflexivity].
  - reflexivity.
Qed.

Theorem guard_zero_sound_proof :
  forall args, Forall is_operand args -> (exists a, In a args /\ fill_nonzero a) ->
    check_zero_fill_value args = Raise ValueError.
Proof.
  induction args as [|x r IH]; intros Hop [a [Hin Hnz]]; [destruct Hin|].
  inversion Hop as [|? ? Hx Hr]; subst. cbn [check_zero_fill_value].
  destruct Hin as [->|Hin].
  - rewrite (zero_one_raises _ Hnz). reflexivity.
  - destruct (zero_one_benign _ Hx) as [E|E]; rewrite E; cbn [bind]; [|reflexivity].
    apply IH; [assumption|exists a; auto].
Qed.

Theorem guard_zero_passes_proof :
  forall args, (forall a, In a args -> fill_zero_or_dense a) -> check_zero_fill_value args = Ok VNone.
Proof.
  induction args as [|x r IH]; intros H; [reflexivity|].
  cbn [check_zero_fill_value].
  assert (E : s_check_zero_one x = Ok VNone).
  { destruct (H x (or_introl eq_refl)) as [->|[->| ->]]; reflexivity. }
  rewrite E. cbn [bind]. apply IH. intros a Ha. apply H. right; exact Ha.
Qed.

(* the strict comparison rejects -0.0 (errs towards raising); the loose one (scipy export) accepts it *)
Lemma guard_zero_rejects_negzero_proof : check_zero_fill_value [VInt NEGZERO] = Raise ValueError.
Proof. vm_compute. reflexivity. Qed.

Lemma check_fill_value_int z :
  check_fill_value (VInt z) VNone = if loose_eqb 0 z then Ok VNone else Raise ValueError.
Proof.
  unfold check_fill_value, s_check_fill_value. cbn. destruct (loose_eqb 0 z); reflexivity.
Qed.

Lemma check_fill_value_accepts_negzero_proof : check_fill_value (VInt NEGZERO) VNone = Ok VNone.
Proof. vm_compute. reflexivity. Qed.

(* ------------------------------------------------------------------ check_consistent_fill_value *)
Lemma consistent_one_int h z :
  s_check_consistent_one (VInt h) (VInt z) = if (h =? z)%Z then Ok VNone else Raise ValueError.
Proof. unfold s_check_consistent_one. cbn. unfold strict_eqb. destruct (h =? z)%Z; reflexivity. Qed.

Lemma consistent_loop_ints h zs :
  consistent_loop (VInt h) (map VInt zs) =
  if forallb (Z.eqb h) zs then Ok VNone else Raise ValueError.
Proof.
  induction zs as [|z r IH]; [reflexivity|].
  cbn [map consistent_loop forallb]. rewrite consistent_one_int.
  destruct (h =? z)%Z; cbn [bind andb]; [exact IH|reflexivity].
Qed.

Lemma all_sparse_ints zs : forallb (fun a => negb (is_none a)) (map VInt zs) = true.
Proof. induction zs; cbn; auto. Qed.

Lemma check_consistent_ints zs :
  check_consistent_fill_value (map VInt zs) =
  match zs with
  | [] => Raise ValueError
  | h :: _ => if forallb (Z.eqb h) zs then Ok VNone else Raise ValueError
  end.
Proof.
  unfold check_consistent_fill_value, s_check_consistent_head, ext_all_sparse.
  rewrite all_sparse_ints. destruct zs as [|h r]; [reflexivity|].
  cbn -[consistent_loop forallb map].
  replace (Z.of_nat (S (Datatypes.length (map VInt r))) =? 0)%Z with false
    by (symmetry; apply Z.eqb_neq; lia).
  cbn -[consistent_loop forallb map].
  change (VInt h :: map VInt r) with (map VInt (h :: r)). apply consistent_loop_ints.
Qed.

Theorem guard_consistent_sound_ints :
  forall zs a b, In a zs -> In b zs -> a <> b -> check_consistent_fill_value (map VInt zs) = Raise ValueError.
Proof.
  intros zs a b Ha Hb Hab. rewrite check_consistent_ints.
  destruct zs as [|h r]; [reflexivity|].
  destruct (forallb (Z.eqb h) (h :: r)) eqn:E; [|reflexivity].
  rewrite forallb_forall in E.
  pose proof (E a Ha) as Ea. pose proof (E b Hb) as Eb.
  apply Z.eqb_eq in Ea. apply Z.eqb_eq in Eb. congruence.
Qed.

Theorem guard_consistent_passes_ints :
  forall h zs, (forall z, In z zs -> z = h) -> check_consistent_fill_value (map VInt (h :: zs)) = Ok VNone.
Proof.
  intros h zs H. rewrite check_consistent_ints.
  assert (E : forallb (Z.eqb h) (h :: zs) = true).
  { apply forallb_forall. intros z [<-|Hz]; [apply Z.eqb_refl|]. rewrite (H z Hz). apply Z.eqb_refl. }
  rewrite E. reflexivity.
Qed.

(* an operand that is not a sparse array makes the guard raise as well *)
Lemma guard_consistent_rejects_dense_proof :
  forall l r, check_consistent_fill_value (l ++ VNone :: r) = Raise ValueError.
Proof.
  intros l r. unfold check_consistent_fill_value, s_check_consistent_head, ext_all_sparse.
  assert (E : forallb (fun a => negb (is_none a)) (l ++ VNone :: r) = false).
  { rewrite forallb_app. cbn. apply andb_false_r. }
  rewrite E. reflexivity.
Qed.

(* ------------------------------------------------------------------ environments and guard lists *)
Definition is_fill (a : pyv) : Prop := exists z, a = VInt z.
Definition env_wf (rho : env) : Prop := forall n v, In v (lookup rho n) -> is_fill v.

Lemma fills_are_map l : Forall is_fill l -> exists zs, l = map VInt zs.
Proof.
  induction 1 as [|x r [z ->] _ [zs ->]]; [exists []; reflexivity|].
  exists (z :: zs). reflexivity.
Qed.

Lemma guard_args_fill rho g : env_wf rho -> Forall is_fill (guard_args rho g).
Proof.
  intros W. apply Forall_forall. intros v Hv. unfold guard_args in Hv.
  apply in_flat_map in Hv. destruct Hv as [n [_ Hn]]. exact (W n v Hn).
Qed.

Lemma guard_args_in rho g o v : mem o (g_args g) = true -> In v (lookup rho o) -> In v (guard_args rho g).
Proof.
  intros Hm Hv. unfold guard_args. apply in_flat_map. unfold mem in Hm.
  apply existsb_exists in Hm. destruct Hm as [x [Hx E]]. apply String.eqb_eq in E. subst x.
  exists o. split; assumption.
Qed.

Lemma is_fill_operand a : is_fill a -> is_operand a.
Proof. intros [z ->]. right; left; eauto. Qed.

Lemma check_zero_benign l : Forall is_fill l ->
  check_zero_fill_value l = Ok VNone \/ check_zero_fill_value l = Raise ValueError.
Proof.
  induction 1 as [|x r Hx _ IH]; [left; reflexivity|].
  cbn [check_zero_fill_value].
  destruct (zero_one_benign x (is_fill_operand _ Hx)) as [E|E]; rewrite E; cbn [bind]; auto.
Qed.

Lemma check_fill_values_benign l : Forall is_fill l ->
  check_fill_values l = Ok VNone \/ check_fill_values l = Raise ValueError.
Proof.
  induction 1 as [|x r [z ->] _ IH]; [left; reflexivity|].
  cbn [check_fill_values]. rewrite check_fill_value_int.
  destruct (loose_eqb 0 z); cbn [bind]; auto.
Qed.

Lemma check_fill_values_raises l z : Forall is_fill l -> In (VInt z) l -> is_zero_tok z = false ->
  check_fill_values l = Raise ValueError.
Proof.
  induction 1 as [|x r [y ->] Hr IH]; intros Hin Hz; [destruct Hin|].
  cbn [check_fill_values]. rewrite check_fill_value_int.
  destruct Hin as [E|Hin].
  - injection E as ->. unfold loose_eqb. rewrite Hz.
    assert (N : (0 =? z)%Z = false).
    { apply Z.eqb_neq. intros <-. unfold is_zero_tok in Hz. rewrite Z.eqb_refl in Hz. discriminate. }
    rewrite N, andb_false_r. reflexivity.
  - destruct (loose_eqb 0 y); cbn [bind]; [apply IH; assumption|reflexivity].
Qed.

Lemma run_guard_benign rho g : env_wf rho ->
  run_guard rho g = Ok VNone \/ run_guard rho g = Raise ValueError.
Proof.
  intros W. pose proof (guard_args_fill rho g W) as F. unfold run_guard.
  destruct (g_kind g).
  - apply check_zero_benign; assumption.
  - destruct (fills_are_map _ F) as [zs ->]. rewrite check_consistent_ints.
    destruct zs as [|h r]; [auto|]. destruct (forallb (Z.eqb h) (h :: r)); auto.
  - apply check_fill_values_benign; assumption.
Qed.

Lemma run_guards_benign rho gs : env_wf rho ->
  run_guards rho gs = Ok VNone \/ run_guards rho gs = Raise ValueError.
Proof.
  intros W. induction gs as [|g r IH]; [left; reflexivity|].
  cbn [run_guards]. destruct (run_guard_benign rho g W) as [E|E]; rewrite E; cbn [bind]; auto.
Qed.

Lemma run_guards_raises rho gs g : env_wf rho -> In g gs -> run_guard rho g = Raise ValueError ->
  run_guards rho gs = Raise ValueError.
Proof.
  intros W. induction gs as [|x r IH]; intros Hin Hg; [destruct Hin|].
  cbn [run_guards]. destruct Hin as [->|Hin].
  - rewrite Hg. reflexivity.
  - destruct (run_guard_benign rho x W) as [E|E]; rewrite E; cbn [bind]; auto.
Qed.

Lemma covers_witness k ops gs o : covers k ops gs = true -> In o ops ->
  exists g, In g gs /\ g_kind g = k /\ mem o (g_args g) = true.
Proof.
  unfold covers. intros H Ho. rewrite forallb_forall in H. specialize (H o Ho).
  apply existsb_exists in H. destruct H as [g [Hg E]]. apply andb_true_iff in E. destruct E as [Ek Em].
  exists g. repeat split; try assumption.
  destruct (g_kind g), k; try discriminate; reflexivity.
Qed.

Lemma covers_zero_raises rho ops gs o z :
  env_wf rho -> covers GZero ops gs = true -> In o ops -> In (VInt z) (lookup rho o) -> z <> 0 ->
  run_guards rho gs = Raise ValueError.
Proof.
  intros W C Ho Hz Hnz. destruct (covers_witness _ _ _ _ C Ho) as [g [Hg [Hk Hm]]].
  apply (run_guards_raises rho gs g W Hg). unfold run_guard. rewrite Hk.
  apply guard_zero_sound_proof.
  - eapply Forall_impl; [|apply guard_args_fill; assumption]. intros a; apply is_fill_operand.
  - exists (VInt z). split; [eapply guard_args_in; eassumption|]. left. eauto.
Qed.

Lemma covers_accept_raises rho ops gs o z :
  env_wf rho -> covers GAccept ops gs = true -> In o ops -> In (VInt z) (lookup rho o) -> is_zero_tok z = false ->
  run_guards rho gs = Raise ValueError.
Proof.
  intros W C Ho Hz Hnz. destruct (covers_witness _ _ _ _ C Ho) as [g [Hg [Hk Hm]]].
  apply (run_guards_raises rho gs g W Hg). unfold run_guard. rewrite Hk.
  apply (check_fill_values_raises _ z); [apply guard_args_fill; assumption| |assumption].
  eapply guard_args_in; eassumption.
Qed.

Lemma covers_consistent_raises rho a gs x y :
  env_wf rho -> covers GConsistent [a] gs = true ->
  In (VInt x) (lookup rho a) -> In (VInt y) (lookup rho a) -> x <> y ->
  run_guards rho gs = Raise ValueError.
Proof.
  intros W C Hx Hy Hxy.
  destruct (covers_witness _ _ _ _ C (or_introl eq_refl)) as [g [Hg [Hk Hm]]].
  apply (run_guards_raises rho gs g W Hg). unfold run_guard. rewrite Hk.
  destruct (fills_are_map _ (guard_args_fill rho g W)) as [zs E].
  pose proof (guard_args_in rho g a _ Hm Hx) as Ix. pose proof (guard_args_in rho g a _ Hm Hy) as Iy.
  rewrite E in *. apply (guard_consistent_sound_ints zs x y); [| |assumption].
  - apply in_map_iff in Ix. destruct Ix as [z [Ez Iz]]. injection Ez as ->. assumption.
  - apply in_map_iff in Iy. destruct Iy as [z [Ez Iz]]. injection Ez as ->. assumption.
Qed.

(* ------------------------------------------------------------------ soundness of site_ok, per policy *)
Lemma site_ok_zero_path k u ops s p :
  site_ok_zero k u ops s = true -> In p (s_paths s) -> path_returns p = true ->
  match u with Some c => mem c (p_conds p) = true | None => True end ->
  covers k ops (p_guards p) = true.
Proof.
  unfold site_ok_zero. intros H Hp Hr Hu. apply andb_true_iff in H. destruct H as [H _].
  rewrite forallb_forall in H. specialize (H p Hp). rewrite Hr in H. cbn [negb orb] in H.
  destruct u as [c|]; [rewrite Hu in H|]; cbn [negb orb] in H; exact H.
Qed.

Lemma site_ok_zero_ctor k u ops s c :
  site_ok_zero k u ops s = true -> In c (s_ctors s) -> zero_ctor_ok c = true.
Proof.
  unfold site_ok_zero. intros H Hc. apply andb_true_iff in H. destruct H as [_ H].
  rewrite forallb_forall in H. exact (H c Hc).
Qed.

(* a zero-only operation whose row passes site_ok raises ValueError as soon as one array operand has a
   fill that is not (bitwise) zero — on every way out that returns *)
Theorem zero_only_sound_proof :
  forall ops s, site_ok_zero GZero None ops s = true ->
  forall p rho o z, In p (s_paths s) -> path_returns p = true -> env_wf rho ->
    In o ops -> In (VInt z) (lookup rho o) -> z <> 0 ->
    run_guards rho (p_guards p) = Raise ValueError.
Proof.
  intros ops s H p rho o z Hp Hr W Ho Hz Hnz.
  eapply covers_zero_raises; try eassumption.
  eapply site_ok_zero_path; try eassumption. exact I.
Qed.

Theorem zero_only_when_sound_proof :
  forall cnd ops s, site_ok_zero GZero (Some cnd) ops s = true ->
  forall p rho o z, In p (s_paths s) -> path_returns p = true -> mem cnd (p_conds p) = true -> env_wf rho ->
    In o ops -> In (VInt z) (lookup rho o) -> z <> 0 ->
    run_guards rho (p_guards p) = Raise ValueError.
Proof.
  intros cnd ops s H p rho o z Hp Hr Hc W Ho Hz Hnz.
  eapply covers_zero_raises; try eassumption.
  eapply site_ok_zero_path; try eassumption.
Qed.

Theorem zero_only_loose_sound_proof :
  forall ops s, site_ok_zero GAccept None ops s = true ->
  forall p rho o z, In p (s_paths s) -> path_returns p = true -> env_wf rho ->
    In o ops -> In (VInt z) (lookup rho o) -> is_zero_tok z = false ->
    run_guards rho (p_guards p) = Raise ValueError.
Proof.
  intros ops s H p rho o z Hp Hr W Ho Hz Hnz.
  eapply covers_accept_raises; try eassumption.
  eapply site_ok_zero_path; try eassumption. exact I.
Qed.

(* ... and when the guards pass (all fills zero) the constructed fill is zero *)
Theorem zero_only_result_proof :
  forall k u ops s c, site_ok_zero k u ops s = true -> In c (s_ctors s) ->
    forall other, result_fill c (VInt 0) other = VInt 0 \/ c_fill c = FDense.
Proof.
  intros k u ops s c H Hc other. pose proof (site_ok_zero_ctor _ _ _ _ _ H Hc) as Z.
  unfold zero_ctor_ok in Z. unfold result_fill.
  destruct (c_fill c) as [| | | |z| |]; try discriminate; auto.
  apply Z.eqb_eq in Z. subst. auto.
Qed.

Lemma exec_ok_inv p c rho f other r : exec p c rho f other = Ok r -> r = result_fill c f other.
Proof.
  unfold exec. destruct (run_guards rho (p_guards p)); cbn [bind]; intros E; [injection E; auto|discriminate].
Qed.

Lemma operand_ctor_fill ok c f other :
  operand_ctor_ok ok c = true -> result_fill c f other = f \/ c_fill c = FDense \/ mem (c_src c) ok = true.
Proof.
  unfold operand_ctor_ok, result_fill. destruct (c_fill c); intros H; try discriminate; auto.
Qed.

(* a join whose row passes site_ok raises ValueError when two operands have different fills, and otherwise
   builds the result with the operands' fill *)
Theorem consistent_sound_proof :
  forall a s, site_ok_consistent a s = true ->
  forall p rho, In p (s_paths s) -> path_returns p = true -> env_wf rho ->
    (forall x y, In (VInt x) (lookup rho a) -> In (VInt y) (lookup rho a) -> x <> y ->
       run_guards rho (p_guards p) = Raise ValueError)
    /\ (forall c f other r, In c (s_ctors s) -> exec p c rho f other = Ok r -> r = f \/ c_fill c = FDense).
Proof.
  intros a s H p rho Hp Hr W. unfold site_ok_consistent in H. apply andb_true_iff in H. destruct H as [H1 H2].
  split.
  - intros x y Hx Hy Hxy. rewrite forallb_forall in H1. specialize (H1 p Hp). rewrite Hr in H1.
    cbn [negb orb] in H1. apply (covers_consistent_raises rho a (p_guards p) x y); assumption.
  - intros c f other r Hc E. rewrite forallb_forall in H2. specialize (H2 c Hc).
    apply exec_ok_inv in E. subst r.
    destruct (operand_ctor_fill [] c f other H2) as [?|[?|M]]; auto. discriminate M.
Qed.

(* an operation that only moves / selects positions and whose row passes site_ok returns a result with the
   operand's fill, or raises *)
Theorem preserves_sound_proof :
  forall ok s, site_ok_preserves ok s = true ->
  forall p c rho f other r, In c (s_ctors s) -> exec p c rho f other = Ok r ->
    r = f \/ c_fill c = FDense \/ mem (c_src c) ok = true.
Proof.
  intros ok s H p c rho f other r Hc E. unfold site_ok_preserves in H.
  apply andb_true_iff in H. destruct H as [H _]. rewrite forallb_forall in H. specialize (H c Hc).
  apply exec_ok_inv in E. subst r. apply operand_ctor_fill. exact H.
Qed.

Theorem caller_guarded_sound_proof :
  forall table s, site_ok table CallerGuarded s = true ->
  forall t, In t table -> mem (s_op s) (s_delegates t) = true -> zero_only_policy (policy_of (s_op t)) = true.
Proof.
  intros table s H t Ht Hm. cbn [site_ok] in H. apply andb_true_iff in H. destruct H as [H _].
  unfold callers_zero_only in H. rewrite forallb_forall in H. specialize (H t Ht). rewrite Hm in H. exact H.
Qed.

(* the umbrella statement: what site_ok buys, policy by policy *)
Definition site_sound (table : list site) (pol : policy) (s : site) : Prop :=
  forall p rho, In p (s_paths s) -> path_returns p = true -> env_wf rho ->
  match pol with
  | ZeroOnly ops =>
      (forall o z, In o ops -> In (VInt z) (lookup rho o) -> z <> 0 -> run_guards rho (p_guards p) = Raise ValueError)
      /\ (forall c other, In c (s_ctors s) -> result_fill c (VInt 0) other = VInt 0 \/ c_fill c = FDense)
  | ZeroOnlyLoose ops =>
      (forall o z, In o ops -> In (VInt z) (lookup rho o) -> is_zero_tok z = false ->
         run_guards rho (p_guards p) = Raise ValueError)
  | ZeroOnlyWhen cnd ops =>
      mem cnd (p_conds p) = true ->
      (forall o z, In o ops -> In (VInt z) (lookup rho o) -> z <> 0 -> run_guards rho (p_guards p) = Raise ValueError)
  | Consistent a =>
      (forall x y, In (VInt x) (lookup rho a) -> In (VInt y) (lookup rho a) -> x <> y ->
         run_guards rho (p_guards p) = Raise ValueError)
      /\ (forall c f other r, In c (s_ctors s) -> exec p c rho f other = Ok r -> r = f \/ c_fill c = FDense)
  | Preserves ok =>
      forall c f other r, In c (s_ctors s) -> exec p c rho f other = Ok r ->
        r = f \/ c_fill c = FDense \/ mem (c_src c) ok = true
  | PreservesOrZeroOnly ops =>
      (forall c f other r, In c (s_ctors s) -> exec p c rho f other = Ok r -> r = f \/ c_fill c = FDense)
      \/ ((forall o z, In o ops -> In (VInt z) (lookup rho o) -> z <> 0 -> run_guards rho (p_guards p) = Raise ValueError)
          /\ (forall c other, In c (s_ctors s) -> result_fill c (VInt 0) other = VInt 0 \/ c_fill c = FDense))
  | CallerGuarded =>
      forall t, In t table -> mem (s_op s) (s_delegates t) = true -> zero_only_policy (policy_of (s_op t)) = true
  | Computes | NoArrayResult => True
  end.

Theorem site_ok_sound_proof : forall table pol s, site_ok table pol s = true -> site_sound table pol s.
Proof.
  intros table pol s H p rho Hp Hr W. destruct pol as [ops|ops|cnd ops|a|ok|ops| | |]; cbn [site_ok] in H.
  - split.
    + intros o z Ho Hz Hnz. eapply zero_only_sound_proof; eassumption.
    + intros c other Hc. eapply zero_only_result_proof; eassumption.
  - intros o z Ho Hz Hnz. eapply zero_only_loose_sound_proof; eassumption.
  - intros Hc o z Ho Hz Hnz. eapply zero_only_when_sound_proof; eassumption.
  - eapply consistent_sound_proof; eassumption.
  - intros c f other r Hc E. eapply preserves_sound_proof; eassumption.
  - apply orb_true_iff in H. destruct H as [H|H].
    + left. intros c f other r Hc E.
      destruct (preserves_sound_proof [] s H p c rho f other r Hc E) as [?|[?|M]]; auto. discriminate M.
    + right. split.
      * intros o z Ho Hz Hnz. eapply zero_only_sound_proof; eassumption.
      * intros c other Hc. eapply zero_only_result_proof; eassumption.
  - exact I.
  - exact I.
  - intros t Ht Hm. eapply caller_guarded_sound_proof; eassumption.
Qed.

(* ------------------------------------------------------------------ the generated table *)
Theorem policy_respected_proof : forallb (site_ok_req sites) sites = true.
Proof. vm_compute. reflexivity. Qed.

(* every generated row carries a required policy (a new public operation must be classified) *)
Theorem policy_total_proof : forallb (fun s => match policy_of (s_op s) with Some _ => true | None => false end) sites = true.
Proof. vm_compute. reflexivity. Qed.

(* ... and every row of the hand-written table names an operation that exists *)
Theorem policy_no_stale_proof :
  forallb (fun kp => match find_site sites (fst kp) with Some _ => true | None => false end) required = true.
Proof. vm_compute. reflexivity. Qed.

(* the check discriminates: the `diagonal` row as it was extracted BEFORE fix 7b39a89 (finding D5: no guard,
   constructor without fill_value) fails its obligation, and run in the abstract semantics on an operand with fill 3 it
   returns a result with fill 0 without raising *)
Definition diagonal_row_example : site :=
  mkSite "coo_common.diagonal" true ["a"; "offset"; "axis1"; "axis2"]
    [mkPath PRaise ["a.shape[axis1] != a.shape[axis2]"] [] "ValueError";
     mkPath PReturn [] [] "COO(diag_coords, diag_data, diag_shape)"]
    [mkCtor "COO" FAbsent ""] ["coo_common._diagonal_idx"] false.

Example diagonal_row_not_ok : site_ok [] (Preserves []) diagonal_row_example = false.
Proof. reflexivity. Qed.

Example diagonal_row_silently_wrong :
  exec (mkPath PReturn [] [] "COO(diag_coords, diag_data, diag_shape)") (mkCtor "COO" FAbsent "")
       [("a", [VInt 3])] (VInt 3) VNone = Ok (VInt 0).
Proof. reflexivity. Qed.

(* non-vacuity of the soundness theorems: rows of the generated table meet their hypotheses *)
Example zero_only_nonvacuous :
  exists s, find_site sites "coo_common.triu" = Some s /\ site_ok sites (ZeroOnly ["x"]) s = true
    /\ existsb (fun p => path_returns p &&
         match run_guards [("x", [VInt 3])] (p_guards p) with Raise ValueError => true | _ => false end) (s_paths s) = true
    /\ existsb (fun p => path_returns p &&
         match run_guards [("x", [VInt 0])] (p_guards p) with Ok _ => true | _ => false end) (s_paths s) = true.
Proof. eexists. split; [vm_compute; reflexivity|]. vm_compute. auto. Qed.

Example consistent_nonvacuous :
  exists s, find_site sites "coo_common.concatenate" = Some s /\ site_ok sites (Consistent "arrays") s = true
    /\ existsb (fun p => path_returns p &&
         match run_guards [("arrays", [VInt 3; VInt 0])] (p_guards p) with Raise ValueError => true | _ => false end) (s_paths s) = true
    /\ existsb (fun p => path_returns p &&
         match run_guards [("arrays", [VInt 3; VInt 3])] (p_guards p) with Ok _ => true | _ => false end) (s_paths s) = true.
Proof. eexists. split; [vm_compute; reflexivity|]. vm_compute. auto. Qed.

Example preserves_nonvacuous :
  exists s p c, find_site sites "coo_common.flip" = Some s /\ site_ok sites (Preserves []) s = true
    /\ In p (s_paths s) /\ In c (s_ctors s) /\ exec p c [("x", [VInt 3])] (VInt 3) VNone = Ok (VInt 3).
Proof.
  eexists. eexists. eexists. split; [vm_compute; reflexivity|].
  split; [vm_compute; reflexivity|]. split; [left; reflexivity|]. split; [left; reflexivity|]. reflexivity.
Qed.

(* ------------------------------------------------------------------ coercion / mix / scalar rules *)
Theorem array_coercion_rule_proof :
  forall auto self,
    (array_coerce auto self = Raise RuntimeError <-> auto = false)
    /\ (auto = true -> array_coerce auto self = ext_densify self).
Proof.
  intros auto self. unfold array_coerce, s_array_coerce. destruct auto; cbn.
  - split; [split; intros H; discriminate H|reflexivity].
  - split; [split; reflexivity|intros H; discriminate H].
Qed.

(* the switch is read in exactly one place: only SparseArray defines __array__ (COO / GCXS / DOK inherit it), only
   __array__ mentions AUTO_DENSIFY, and the switch is computed once, at import, from the environment *)
Theorem coercion_single_site_proof :
  array_definers = ["SparseArray"] /\ auto_densify_readers = ["SparseArray.__array__"]
  /\ auto_densify_source = "bool(int(os.environ.get('SPARSE_AUTO_DENSIFY', '0')))".
Proof. repeat split; reflexivity. Qed.

Lemma pyv_ints_eqb_spec : forall a b, pyv_ints_eqb (map VInt a) (map VInt b) = true <-> a = b.
Proof.
  induction a as [|x r IH]; destruct b as [|y s]; cbn; split; intros H; try discriminate; try reflexivity.
  - apply andb_true_iff in H. destruct H as [E H]. apply Z.eqb_eq in E. apply IH in H. congruence.
  - injection H as -> ->. rewrite Z.eqb_refl. cbn. apply IH. reflexivity.
Qed.

Ltac fin :=
  repeat split; intros;
  repeat match goal with H : _ /\ _ |- _ => destruct H end;
  try discriminate; try congruence; try contradiction; auto.

(* dense result iff func(fills, ndarrays) is not constant and the ndarray operands already have the full
   shape; ValueError iff not constant and they do not; sparse iff constant *)
Theorem dense_mix_rule_proof :
  forall const shape nshape,
    (dense_mix const shape nshape = MixSparse <-> const = true)
    /\ (dense_mix const shape nshape = MixDense <-> const = false /\ shape = nshape)
    /\ (dense_mix const shape nshape = MixValueError <-> const = false /\ shape <> nshape).
Proof.
  intros const shape nshape. unfold dense_mix, s_dense_mix, ext_shape_ne.
  destruct const; cbn.
  - fin.
  - destruct (pyv_ints_eqb (map VInt shape) (map VInt nshape)) eqn:E; cbn.
    + apply pyv_ints_eqb_spec in E. subst. fin.
    + assert (N : shape <> nshape).
      { intros ->. assert (T : pyv_ints_eqb (map VInt nshape) (map VInt nshape) = true)
          by (apply pyv_ints_eqb_spec; reflexivity). congruence. }
      fin.
Qed.

Theorem to_scalar_rule_proof :
  forall size shape,
    (to_scalar size shape = Raise ValueError <-> (size <> 1 \/ shape <> []))
    /\ (size = 1 /\ shape = [] -> is_dense_result (to_scalar size shape) = true).
Proof.
  intros size shape. unfold to_scalar, s_to_scalar, ext_shape_ne. cbn.
  destruct (Z.eqb_spec size 1) as [->|N]; cbn.
  - destruct shape as [|d r]; cbn.
    + split; [split; [intros H; discriminate H|intros [H|H]; contradiction]|reflexivity].
    + split; [split; [intros _; right; discriminate|reflexivity]|intros [_ H]; discriminate H].
  - split; [split; [intros _; left; assumption|reflexivity]|intros [H _]; contradiction].
Qed.

Theorem reduce_admissible_rule_proof :
  forall e s, reduce_admissible e s = Raise ValueError <-> (e = false /\ s = false).
Proof.
  intros e s. unfold reduce_admissible, s_reduce_admissible. destruct e, s; cbn;
    split; try (intros H; discriminate H); try (intros [H1 H2]; discriminate); auto.
Qed.

Theorem maybe_densify_rule_proof :
  forall size max_size low,
    (maybe_densify_coo size max_size low = Raise ValueError <-> (max_size < size /\ low = true))
    /\ maybe_densify_gcxs size max_size low = maybe_densify_coo size max_size low.
Proof.
  intros size max_size low. split; [|reflexivity].
  unfold maybe_densify_coo, s_maybe_densify_coo. cbn. rewrite Z.gtb_ltb.
  destruct (Z.ltb_spec max_size size); destruct low; cbn;
    split; try (intros H'; discriminate H'); try (intros [H1 H2]; try discriminate; lia); auto.
Qed.

(* ------------------------------------------------------------------ the fill correction of a sum *)
Lemma xadd_0_l a : xadd (Fin 0) a = a.
Proof. destruct a; cbn; auto. Qed.
Lemma xadd_0_r a : xadd a (Fin 0) = a.
Proof. destruct a; cbn; auto. f_equal. lia. Qed.
Lemma xadd_assoc a b c : xadd (xadd a b) c = xadd a (xadd b c).
Proof. destruct a, b, c; cbn; auto. f_equal. lia. Qed.

Lemma fold_xadd l : forall acc, fold_left xadd l acc = xadd acc (fold_left xadd l (Fin 0)).
Proof.
  induction l as [|x r IH]; intros acc; cbn [fold_left].
  - rewrite xadd_0_r. reflexivity.
  - rewrite (IH (xadd acc x)), (IH (xadd (Fin 0) x)), xadd_0_l, xadd_assoc. reflexivity.
Qed.

Lemma xsum_app a b : xsum (a ++ b) = xadd (xsum a) (xsum b).
Proof. unfold xsum. rewrite fold_left_app. apply fold_xadd. Qed.

Lemma xsum_repeat_fin x k : xsum (repeat (Fin x) k) = Fin (x * Z.of_nat k).
Proof.
  induction k as [|k IH]; [cbn; f_equal; lia|].
  change (repeat (Fin x) (S k)) with ([Fin x] ++ repeat (Fin x) k)%list.
  rewrite xsum_app, IH. cbn. f_equal. lia.
Qed.

Lemma xsum_repeat_special f k : (forall z, f <> Fin z) -> xsum (repeat f (S k)) = f.
Proof.
  intros H. induction k as [|k IH].
  - destruct f; try reflexivity; exfalso; eapply H; reflexivity.
  - change (repeat f (S (S k))) with ([f] ++ repeat f (S k))%list. rewrite xsum_app, IH.
    destruct f; try reflexivity; exfalso; eapply H; reflexivity.
Qed.

Lemma xsum_repeat_count f k : (0 < k)%nat -> xsum (repeat f k) = xmul_count f (Z.of_nat k).
Proof.
  intros H. destruct f as [x| | |]; [apply xsum_repeat_fin| | |];
    (destruct k as [|k]; [lia|]; rewrite xsum_repeat_special by (intros z; discriminate); cbn;
     try (replace (Z.pos (Pos.of_succ_nat k) =? 0)%Z with false by (symmetry; apply Z.eqb_neq; lia)); reflexivity).
Qed.

(* the correction of a group with stored values is right for every fill, finite or not (since fix f1f8980) *)
(* the statements of SparseArray.reduce transcribed by sum_group_impl / sum_result_fill are present in the source *)
Definition reduce_correction_pinned : Prop := List.length s_reduce_correction_pins = 6%nat.
Lemma reduce_correction_pinned_proof : reduce_correction_pinned.
Proof. reflexivity. Qed.

Theorem sum_fill_correction_proof :
  reduce_correction_pinned /\
  forall stored fill n, (List.length stored <= n)%nat ->
    sum_group_impl stored fill n = sum_group_spec stored fill n.
Proof.
  split; [exact reduce_correction_pinned_proof|].
  intros stored fill n Hle. unfold sum_group_impl, sum_group_spec. rewrite xsum_app.
  destruct (Nat.eqb_spec (List.length stored) n) as [E|N].
  - subst n. rewrite Nat.sub_diag. cbn [repeat]. unfold xsum at 2. cbn [fold_left]. rewrite xadd_0_r. reflexivity.
  - f_equal.
    replace (Z.of_nat n - Z.of_nat (List.length stored)) with (Z.of_nat (n - List.length stored)) by lia.
    symmetry. apply xsum_repeat_count. lia.
Qed.

(* ... and so is the fill of the result (a group that stores nothing), including an empty reduced axis *)
Theorem sum_result_fill_right_proof :
  reduce_correction_pinned /\
  forall fill n, sum_result_fill fill n = xsum (repeat fill n).
Proof.
  split; [exact reduce_correction_pinned_proof|].
  intros fill n. unfold sum_result_fill. destruct (Nat.eqb_spec n 0) as [->|N]; [reflexivity|].
  symmetry. apply xsum_repeat_count. lia.
Qed.

(* the case that used to fail (finding D29): a complete group with an infinite fill *)
Example sum_fill_correction_nonvacuous :
  sum_group_impl [Fin 1; Fin 2] PInf 2 = Fin 3 /\ sum_group_spec [Fin 1; Fin 2] PInf 2 = Fin 3
  /\ sum_group_impl [Fin 1] PInf 2 = PInf /\ sum_group_impl [Fin 1; Fin 2] (Fin 3) 4 = Fin 9
  /\ sum_result_fill XNaN 3 = XNaN /\ sum_result_fill PInf 0 = Fin 0.
Proof. repeat split. Qed.

(* ------------------------------------------------------------------ fill passing = right at every unstored position *)
Theorem preserves_fill_right_proof :
  forall (V : Type) (x r : COO.coo V) (src : Shape.idx -> Shape.idx),
    stored_right x r src -> unstored_from_unstored x r src -> COO.c_fill r = COO.c_fill x ->
    forall i, COO.den r i = COO.den x (src i).
Proof.
  intros V x r src Hs Hu Hf i. unfold COO.den at 1.
  destruct (COO.lookup (COO.entries r) i) as [v|] eqn:E.
  - symmetry. apply (Hs i v E).
  - unfold COO.den. rewrite (Hu i E). exact Hf.
Qed.

(* ... and passing it is necessary as soon as one position of the result is unstored *)
Theorem preserves_fill_necessary_proof :
  forall (V : Type) (x r : COO.coo V) (src : Shape.idx -> Shape.idx),
    unstored_from_unstored x r src ->
    (exists i, COO.lookup (COO.entries r) i = None) ->
    (forall i, COO.den r i = COO.den x (src i)) -> COO.c_fill r = COO.c_fill x.
Proof.
  intros V x r src Hu [i E] H. specialize (H i). unfold COO.den in H. rewrite E, (Hu i E) in H. exact H.
Qed.

(* the same illustration at the level of dense meanings: with the fill not passed, position 1 of diagonal(x) is 0
   although x[1,1] is 3 *)
Example unpassed_fill_is_wrong_example :
  stored_right diag_operand_example diag_result_example diag_src
  /\ unstored_from_unstored diag_operand_example diag_result_example diag_src
  /\ COO.den diag_result_example [1] = 0 /\ COO.den diag_operand_example (diag_src [1]) = 3.
Proof.
  split; [|split; [|split; reflexivity]].
  - intros i v. destruct i as [|k [|? ?]]; cbn; try discriminate;
      try (rewrite andb_false_r; discriminate).
    rewrite andb_true_r. destruct (Z.eqb_spec 0 k) as [<-|N]; [|discriminate].
    intros H; injection H as <-. reflexivity.
  - intros i. destruct i as [|k [|? ?]]; cbn; try reflexivity;
      try (rewrite ?andb_false_r; reflexivity).
    rewrite !andb_true_r. destruct (Z.eqb_spec 0 k) as [<-|N]; [discriminate|reflexivity].
Qed.
