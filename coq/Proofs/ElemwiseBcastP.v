(* Proofs/ElemwiseBcastP.v — alignment of operand shapes inside a broadcast shape: the parameter
   lists of _get_broadcast_parameters, NumPy's index map bcast_idx, and the coordinate expansion
   _get_expanded_coords_data.  Shapes are aligned at their LAST axis while every list function of the
   model recurses from the FIRST one; the inductive relations BT / BT2 below describe the alignment
   front-to-back so that all later proofs are plain structural inductions. *)
From Coq Require Import ZArith List Bool Lia Arith Sorting.Sorted Sorting.Permutation.
From Verif Require Import Py PyExt Shape COO COOP NpElemwise G_umath S_umath Elemwise ElemwiseP.
Import ListNotations.
Open Scope Z_scope.

(* ------------------------------------------------------------------ zip_longest at the far end *)

Lemma zip_longest_snoc_r {A} (fa : A) l1 l2 y :
  (length l1 <= length l2)%nat -> zip_longest fa l1 (l2 ++ [y]) = zip_longest fa l1 l2 ++ [(fa, y)].
Proof.
  revert l2. induction l1 as [|x r1 IH]; intros l2 H; simpl.
  - rewrite map_app. reflexivity.
  - destruct l2 as [|z r2]; simpl in *; [lia|]. rewrite IH by lia. reflexivity.
Qed.

Lemma zip_longest_snoc_both {A} (fa : A) l1 l2 x y :
  length l1 = length l2 -> zip_longest fa (l1 ++ [x]) (l2 ++ [y]) = zip_longest fa l1 l2 ++ [(x, y)].
Proof.
  revert l2. induction l1 as [|a r1 IH]; intros l2 H; destruct l2 as [|b r2]; simpl in *; try discriminate.
  - reflexivity.
  - rewrite IH by lia. reflexivity.
Qed.

(* ------------------------------------------------------------------ _get_broadcast_parameters, front to back *)

Lemma bcast_params_nil : bcast_params [] [] = [].
Proof. reflexivity. Qed.

Lemma bcast_params_skip s d cur :
  (length s <= length cur)%nat -> bcast_params s (d :: cur) = None :: bcast_params s cur.
Proof.
  intros H. unfold bcast_params. simpl rev. rewrite map_app. change (map Some [d]) with [Some d].
  rewrite zip_longest_snoc_r by (rewrite !map_length, !rev_length; exact H).
  rewrite map_app, rev_app_distr. simpl. rewrite param_fillvalue_spec, param_of_spec. reflexivity.
Qed.

Lemma bcast_params_cons e s d cur :
  length s = length cur -> bcast_params (e :: s) (d :: cur) = Some (e =? d) :: bcast_params s cur.
Proof.
  intros H. unfold bcast_params. simpl rev. rewrite !map_app.
  change (map Some [d]) with [Some d]. change (map Some [e]) with [Some e].
  rewrite zip_longest_snoc_both by (rewrite !map_length, !rev_length; exact H).
  rewrite map_app, rev_app_distr. simpl. rewrite param_of_spec. reflexivity.
Qed.

Lemma bcast_params_length s cur : (length s <= length cur)%nat -> length (bcast_params s cur) = length cur.
Proof.
  intros H. unfold bcast_params. rewrite rev_length, map_length, zip_longest_length, !map_length, !rev_length. lia.
Qed.

(* ------------------------------------------------------------------ bcast_idx, front to back *)

Lemma bcast_idx_skip s i q : (length s <= length q)%nat -> bcast_idx s (i :: q) = bcast_idx s q.
Proof.
  intros H. unfold bcast_idx. simpl length. rewrite Nat.sub_succ_l by exact H. reflexivity.
Qed.

Lemma bcast_idx_cons e s i q :
  length s = length q -> bcast_idx (e :: s) (i :: q) = (if e =? 1 then 0 else i) :: bcast_idx s q.
Proof.
  intros H. unfold bcast_idx. simpl length. rewrite H, !Nat.sub_diag. reflexivity.
Qed.

(* ------------------------------------------------------------------ k-th extent from the end, front to back *)

Lemma ext_cons_lt d l k : (k < length l)%nat -> ext_from_end (d :: l) k = ext_from_end l k.
Proof. intros H. unfold ext_from_end. simpl. apply app_nth1. rewrite rev_length. exact H. Qed.

Lemma ext_cons_eq d l : ext_from_end (d :: l) (length l) = d.
Proof.
  unfold ext_from_end. simpl. rewrite app_nth2 by (rewrite rev_length; lia).
  rewrite rev_length, Nat.sub_diag. reflexivity.
Qed.

(* ------------------------------------------------------------------ one shape inside a broadcast shape *)

Inductive BT : shape -> shape -> Prop :=
| BT_nil : BT [] []
| BT_skip s d cur : BT s cur -> BT s (d :: cur)
| BT_cons e s d cur : length s = length cur -> (e = d \/ e = 1) -> BT s cur -> BT (e :: s) (d :: cur).

Lemma BT_length s cur : BT s cur -> (length s <= length cur)%nat.
Proof. induction 1; simpl; lia. Qed.

Lemma BT_intro : forall cur s,
  (length s <= length cur)%nat ->
  (forall k, (k < length s)%nat -> ext_from_end s k = ext_from_end cur k \/ ext_from_end s k = 1) ->
  BT s cur.
Proof.
  induction cur as [|d cur IH]; intros s Hl He.
  - destruct s; [constructor|simpl in Hl; lia].
  - destruct (Nat.eq_dec (length s) (S (length cur))) as [E|E].
    + destruct s as [|e s]; [discriminate|]. simpl in E. injection E as E.
      apply BT_cons; [exact E| |].
      * specialize (He (length s)). rewrite ext_cons_eq in He. rewrite E in He at 2. rewrite ext_cons_eq in He.
        apply He. simpl. lia.
      * apply IH; [lia|]. intros k Hk. specialize (He k). rewrite !ext_cons_lt in He by lia. apply He. simpl. lia.
    + apply BT_skip. simpl in Hl. apply IH; [lia|]. intros k Hk. specialize (He k Hk).
      rewrite ext_cons_lt in He by lia. exact He.
Qed.

Lemma BT_refl sh : BT sh sh.
Proof. induction sh; [constructor|apply BT_cons; auto]. Qed.

(* ------------------------------------------------------------------ two shapes inside their broadcast *)

Inductive BT2 : shape -> shape -> shape -> Prop :=
| B2_nil : BT2 [] [] []
| B2_both e1 e2 d s1 s2 cur :
    length s1 = length cur -> length s2 = length cur ->
    (e1 = d \/ e1 = 1) -> (e2 = d \/ e2 = 1) -> (e1 = d \/ e2 = d) ->
    BT2 s1 s2 cur -> BT2 (e1 :: s1) (e2 :: s2) (d :: cur)
| B2_left d s1 s2 cur :
    length s1 = length cur -> (length s2 <= length cur)%nat ->
    BT2 s1 s2 cur -> BT2 (d :: s1) s2 (d :: cur)
| B2_right d s1 s2 cur :
    (length s1 <= length cur)%nat -> length s2 = length cur ->
    BT2 s1 s2 cur -> BT2 s1 (d :: s2) (d :: cur).

Lemma BT2_intro : forall cur s1 s2,
  length cur = Nat.max (length s1) (length s2) ->
  (forall k, (k < length s1)%nat -> ext_from_end s1 k = ext_from_end cur k \/ ext_from_end s1 k = 1) ->
  (forall k, (k < length s2)%nat -> ext_from_end s2 k = ext_from_end cur k \/ ext_from_end s2 k = 1) ->
  (forall k, (k < length cur)%nat ->
             ((k < length s1)%nat /\ ext_from_end s1 k = ext_from_end cur k) \/
             ((k < length s2)%nat /\ ext_from_end s2 k = ext_from_end cur k)) ->
  BT2 s1 s2 cur.
Proof.
  induction cur as [|d cur IH]; intros s1 s2 Hl H1 H2 H3.
  - destruct s1, s2; simpl in Hl; try lia. constructor.
  - simpl in Hl.
    destruct (Nat.eq_dec (length s1) (S (length cur))) as [E1|E1];
      destruct (Nat.eq_dec (length s2) (S (length cur))) as [E2|E2]; try lia.
    + destruct s1 as [|e1 s1]; [discriminate|]. destruct s2 as [|e2 s2]; [discriminate|].
      simpl in E1, E2. injection E1 as E1. injection E2 as E2.
      pose proof (H1 (length cur)) as A1. pose proof (H2 (length cur)) as A2. pose proof (H3 (length cur)) as A3.
      rewrite <- E1 in A1 at 2. rewrite <- E2 in A2 at 2. rewrite ext_cons_eq in A1, A2.
      rewrite <- E1 in A3 at 3. rewrite <- E2 in A3 at 5. rewrite !ext_cons_eq in A3.
      rewrite ext_cons_eq in A1, A2, A3.
      apply B2_both; auto.
      * apply A1. simpl. lia.
      * apply A2. simpl. lia.
      * destruct A3 as [[_ A]|[_ A]]; [simpl; lia|left; exact A|right; exact A].
      * apply IH; [lia| | |].
        -- intros k Hk. specialize (H1 k). rewrite !ext_cons_lt in H1 by lia. apply H1. simpl. lia.
        -- intros k Hk. specialize (H2 k). rewrite !ext_cons_lt in H2 by lia. apply H2. simpl. lia.
        -- intros k Hk. specialize (H3 k). rewrite !ext_cons_lt in H3 by lia. simpl in H3.
           destruct H3 as [[? ?]|[? ?]]; [lia|left; split; [lia|assumption]|right; split; [lia|assumption]].
    + destruct s1 as [|e1 s1]; [discriminate|]. simpl in E1. injection E1 as E1.
      pose proof (H3 (length cur)) as A3. rewrite <- E1 in A3 at 3. rewrite !ext_cons_eq in A3.
      assert (e1 = d).
      { destruct A3 as [[_ A]|[A _]]; [simpl; lia|exact A|lia]. }
      subst e1. apply B2_left; [exact E1|lia|]. apply IH; [lia| | |].
      * intros k Hk. specialize (H1 k). rewrite !ext_cons_lt in H1 by lia. apply H1. simpl. lia.
      * intros k Hk. specialize (H2 k Hk). rewrite ext_cons_lt in H2 by lia. exact H2.
      * intros k Hk. specialize (H3 k). rewrite ext_cons_lt in H3 by lia. simpl in H3.
        rewrite (ext_cons_lt d cur) in H3 by lia.
        destruct H3 as [[? ?]|[? ?]]; [lia|left; split; [lia|]|right; split; assumption].
        rewrite ext_cons_lt in H0 by lia. exact H0.
    + destruct s2 as [|e2 s2]; [discriminate|]. simpl in E2. injection E2 as E2.
      pose proof (H3 (length cur)) as A3. rewrite <- E2 in A3 at 5. rewrite !ext_cons_eq in A3.
      assert (e2 = d).
      { destruct A3 as [[A _]|[_ A]]; [simpl; lia|lia|exact A]. }
      subst e2. apply B2_right; [lia|exact E2|]. apply IH; [lia| | |].
      * intros k Hk. specialize (H1 k Hk). rewrite ext_cons_lt in H1 by lia. exact H1.
      * intros k Hk. specialize (H2 k). rewrite !ext_cons_lt in H2 by lia. apply H2. simpl. lia.
      * intros k Hk. specialize (H3 k). rewrite (ext_cons_lt d cur) in H3 by lia. simpl in H3.
        destruct H3 as [[? ?]|[? ?]]; [lia|left; split; assumption|right; split; [lia|]].
        rewrite ext_cons_lt in H0 by lia. exact H0.
Qed.

Lemma BT2_left_BT s1 s2 cur : BT2 s1 s2 cur -> BT s1 cur.
Proof.
  induction 1; [constructor|apply BT_cons; auto|apply BT_cons; auto|apply BT_skip; auto].
Qed.

Lemma BT2_right_BT s1 s2 cur : BT2 s1 s2 cur -> BT s2 cur.
Proof.
  induction 1; [constructor|apply BT_cons; auto|apply BT_skip; auto|apply BT_cons; auto].
Qed.

(* the result of _get_broadcast_shape aligns both operands *)
Lemma broadcast_shape2_BT2 s1 s2 cur : broadcast_shape2 false s1 s2 = Ok cur -> BT2 s1 s2 cur.
Proof.
  rewrite broadcast_shape2_unfold. destruct (bc_ok false s1 s2) eqn:Hok; [|discriminate].
  intros E. inversion E; subst cur. clear E. rewrite bc_ok_false_spec in Hok.
  apply BT2_intro.
  - apply bc_res_length.
  - intros k Hk. rewrite bc_res_ext. destruct (Z.eqb_spec (ext_from_end s1 k) 1); auto.
  - intros k Hk. rewrite bc_res_ext. destruct (Z.eqb_spec (ext_from_end s1 k) 1) as [E|E]; auto.
    destruct (Nat.lt_ge_cases k (length s1)) as [Hk1|Hk1].
    + destruct (Hok k Hk1 Hk) as [?|[?|?]]; [left; congruence|contradiction|right; assumption].
    + rewrite ext_beyond in E by lia. contradiction.
  - intros k Hk. rewrite bc_res_length in Hk. rewrite bc_res_ext.
    destruct (Z.eqb_spec (ext_from_end s1 k) 1) as [E|E].
    + destruct (Nat.lt_ge_cases k (length s2)) as [Hk2|Hk2]; [right; auto|].
      left. split; [lia|]. rewrite E. symmetry. apply ext_beyond. lia.
    + left. split; [|reflexivity]. destruct (Nat.lt_ge_cases k (length s1)); [assumption|].
      rewrite ext_beyond in E by lia. contradiction.
Qed.

(* every operand shape broadcasts into the n-ary broadcast shape *)
Lemma rel_BT shapes r s : np_broadcast_rel shapes r -> In s shapes -> BT s r.
Proof.
  intros [L [A _]] Hin. apply BT_intro.
  - rewrite L. apply max_ndim_ge. exact Hin.
  - intros k _. destruct (A s k Hin); auto.
Qed.
