(* Proofs/ElemwiseBcastP.v — alignment of operand shapes inside a broadcast shape: the parameter
   lists of _get_broadcast_parameters, NumPy's index map bcast_idx, and the coordinate expansion
   _get_expanded_coords_data.  Shapes are aligned at their LAST axis while every list function of the
   model recurses from the FIRST one; the inductive relations BT / BT2 below describe the alignment
   front-to-back so that all later proofs are plain structural inductions. *)
From Coq Require Import ZArith List Bool Lia Arith Sorting.Sorted Sorting.Permutation.
From Verif Require Import Py PyExt Shape COO COOP NpElemwise G_umath S_umath Elemwise ElemwiseP.
Import ListNotations.
Open Scope Z_scope.

(* ------------------------------------------------------------------ zip_longest at the far end *)

Lemma zip_longest_snoc_r {A} (fa : A) l1 l2 y :
  (length l1 <= length l2)%nat -> zip_longest fa l1 (l2 ++ [y]) = zip_longest fa l1 l2 ++ [(fa, y)].
Proof.
  revert l2. induction l1 as [|x r1 IH]; intros l2 H; simpl.
  - rewrite map_app. reflexivity.
  - destruct l2 as [|z r2]; simpl in *; [lia|]. rewrite IH by lia. reflexivity.
Qed.

Lemma zip_longest_snoc_both {A} (fa : A) l1 l2 x y :
  length l1 = length l2 -> zip_longest fa (l1 ++ [x]) (l2 ++ [y]) = zip_longest fa l1 l2 ++ [(x, y)].
Proof.
  revert l2. induction l1 as [|a r1 IH]; intros l2 H; destruct l2 as [|b r2]; simpl in *; try discriminate.
  - reflexivity.
  - rewrite IH by lia. reflexivity.
Qed.

(* ------------------------------------------------------------------ _get_broadcast_parameters, front to back *)

Lemma bcast_params_nil : bcast_params [] [] = [].
Proof. reflexivity. Qed.

Lemma bcast_params_skip s d cur :
  (length s <= length cur)%nat -> bcast_params s (d :: cur) = None :: bcast_params s cur.
Proof.
  intros H. unfold bcast_params. simpl rev. rewrite map_app. change (map Some [d]) with [Some d].
  rewrite zip_longest_snoc_r by (rewrite !map_length, !rev_length; exact H).
  rewrite map_app, rev_app_distr. simpl. rewrite param_fillvalue_spec, param_of_spec. reflexivity.
Qed.

Lemma bcast_params_cons e s d cur :
  length s = length cur -> bcast_params (e :: s) (d :: cur) = Some (e =? d) :: bcast_params s cur.
Proof.
  intros H. unfold bcast_params. simpl rev. rewrite !map_app.
  change (map Some [d]) with [Some d]. change (map Some [e]) with [Some e].
  rewrite zip_longest_snoc_both by (rewrite !map_length, !rev_length; exact H).
  rewrite map_app, rev_app_distr. simpl. rewrite param_of_spec. reflexivity.
Qed.

Lemma bcast_params_length s cur : (length s <= length cur)%nat -> length (bcast_params s cur) = length cur.
Proof.
  intros H. unfold bcast_params. rewrite rev_length, map_length, zip_longest_length, !map_length, !rev_length. lia.
Qed.

(* ------------------------------------------------------------------ bcast_idx, front to back *)

Lemma bcast_idx_skip s i q : (length s <= length q)%nat -> bcast_idx s (i :: q) = bcast_idx s q.
Proof.
  intros H. unfold bcast_idx. simpl length. rewrite Nat.sub_succ_l by exact H. reflexivity.
Qed.

Lemma bcast_idx_cons e s i q :
  length s = length q -> bcast_idx (e :: s) (i :: q) = (if e =? 1 then 0 else i) :: bcast_idx s q.
Proof.
  intros H. unfold bcast_idx. simpl length. rewrite H, !Nat.sub_diag. reflexivity.
Qed.

(* ------------------------------------------------------------------ k-th extent from the end, front to back *)

Lemma ext_cons_lt d l k : (k < length l)%nat -> ext_from_end (d :: l) k = ext_from_end l k.
Proof. intros H. unfold ext_from_end. simpl. apply app_nth1. rewrite rev_length. exact H. Qed.

Lemma ext_cons_eq d l : ext_from_end (d :: l) (length l) = d.
Proof.
  unfold ext_from_end. simpl. rewrite app_nth2 by (rewrite rev_length; lia).
  rewrite rev_length, Nat.sub_diag. reflexivity.
Qed.

(* ------------------------------------------------------------------ one shape inside a broadcast shape *)

Inductive BT : shape -> shape -> Prop :=
| BT_nil : BT [] []
| BT_skip s d cur : BT s cur -> BT s (d :: cur)
| BT_cons e s d cur : length s = length cur -> (e = d \/ e = 1) -> BT s cur -> BT (e :: s) (d :: cur).

Lemma BT_length s cur : BT s cur -> (length s <= length cur)%nat.
Proof. induction 1; simpl; lia. Qed.

Lemma BT_intro : forall cur s,
  (length s <= length cur)%nat ->
  (forall k, (k < length s)%nat -> ext_from_end s k = ext_from_end cur k \/ ext_from_end s k = 1) ->
  BT s cur.
Proof.
  induction cur as [|d cur IH]; intros s Hl He.
  - destruct s; [constructor|simpl in Hl; lia].
  - destruct (Nat.eq_dec (length s) (S (length cur))) as [E|E].
    + destruct s as [|e s]; [discriminate|]. simpl in E. injection E as E.
      apply BT_cons; [exact E| |].
      * specialize (He (length s)). rewrite ext_cons_eq in He. rewrite E in He at 2. rewrite ext_cons_eq in He.
        apply He. simpl. lia.
      * apply IH; [lia|]. intros k Hk. specialize (He k). rewrite !ext_cons_lt in He by lia. apply He. simpl. lia.
    + apply BT_skip. simpl in Hl. apply IH; [lia|]. intros k Hk. specialize (He k Hk).
      rewrite ext_cons_lt in He by lia. exact He.
Qed.

Lemma BT_refl sh : BT sh sh.
Proof. induction sh; [constructor|apply BT_cons; auto]. Qed.

(* ------------------------------------------------------------------ two shapes inside their broadcast *)

Inductive BT2 : shape -> shape -> shape -> Prop :=
| B2_nil : BT2 [] [] []
| B2_both e1 e2 d s1 s2 cur :
    length s1 = length cur -> length s2 = length cur ->
    (e1 = d \/ e1 = 1) -> (e2 = d \/ e2 = 1) -> (e1 = d \/ e2 = d) ->
    BT2 s1 s2 cur -> BT2 (e1 :: s1) (e2 :: s2) (d :: cur)
| B2_left d s1 s2 cur :
    length s1 = length cur -> (length s2 <= length cur)%nat ->
    BT2 s1 s2 cur -> BT2 (d :: s1) s2 (d :: cur)
| B2_right d s1 s2 cur :
    (length s1 <= length cur)%nat -> length s2 = length cur ->
    BT2 s1 s2 cur -> BT2 s1 (d :: s2) (d :: cur).

Lemma BT2_intro : forall cur s1 s2,
  length cur = Nat.max (length s1) (length s2) ->
  (forall k, (k < length s1)%nat -> ext_from_end s1 k = ext_from_end cur k \/ ext_from_end s1 k = 1) ->
  (forall k, (k < length s2)%nat -> ext_from_end s2 k = ext_from_end cur k \/ ext_from_end s2 k = 1) ->
  (forall k, (k < length cur)%nat ->
             ((k < length s1)%nat /\ ext_from_end s1 k = ext_from_end cur k) \/
             ((k < length s2)%nat /\ ext_from_end s2 k = ext_from_end cur k)) ->
  BT2 s1 s2 cur.
Proof.
  induction cur as [|d cur IH]; intros s1 s2 Hl H1 H2 H3.
  - destruct s1, s2; simpl in Hl; try lia. constructor.
  - simpl in Hl. pose proof (ext_cons_eq d cur) as Xc.
    destruct (Nat.eq_dec (length s1) (S (length cur))) as [E1|E1];
      destruct (Nat.eq_dec (length s2) (S (length cur))) as [E2|E2]; try lia.
    + destruct s1 as [|e1 s1]; [discriminate|]. destruct s2 as [|e2 s2]; [discriminate|].
      simpl in E1, E2. injection E1 as E1. injection E2 as E2.
      assert (X1 : ext_from_end (e1 :: s1) (length cur) = e1) by (rewrite <- E1; apply ext_cons_eq).
      assert (X2 : ext_from_end (e2 :: s2) (length cur) = e2) by (rewrite <- E2; apply ext_cons_eq).
      pose proof (H1 (length cur)) as A1. pose proof (H2 (length cur)) as A2. pose proof (H3 (length cur)) as A3.
      rewrite X1, Xc in A1. rewrite X2, Xc in A2. rewrite X1, X2, Xc in A3. simpl in A1, A2, A3.
      apply B2_both; auto.
      * apply A1. lia.
      * apply A2. lia.
      * destruct A3 as [[_ A]|[_ A]]; [lia|left; exact A|right; exact A].
      * apply IH; [lia| | |].
        -- intros k Hk. specialize (H1 k). rewrite !ext_cons_lt in H1 by lia. apply H1. simpl. lia.
        -- intros k Hk. specialize (H2 k). rewrite !ext_cons_lt in H2 by lia. apply H2. simpl. lia.
        -- intros k Hk. specialize (H3 k). rewrite !ext_cons_lt in H3 by lia. simpl in H3.
           destruct H3 as [[? ?]|[? ?]]; [lia|left; split; [lia|assumption]|right; split; [lia|assumption]].
    + destruct s1 as [|e1 s1]; [discriminate|]. simpl in E1. injection E1 as E1.
      assert (X1 : ext_from_end (e1 :: s1) (length cur) = e1) by (rewrite <- E1; apply ext_cons_eq).
      pose proof (H3 (length cur)) as A3. rewrite X1, Xc in A3. simpl in A3.
      assert (e1 = d).
      { destruct A3 as [[_ A]|[A _]]; [lia|exact A|lia]. }
      subst e1. apply B2_left; [exact E1|lia|]. apply IH; [lia| | |].
      * intros k Hk. specialize (H1 k). rewrite !ext_cons_lt in H1 by lia. apply H1. simpl. lia.
      * intros k Hk. specialize (H2 k Hk). rewrite ext_cons_lt in H2 by lia. exact H2.
      * intros k Hk. specialize (H3 k). rewrite !ext_cons_lt in H3 by lia. simpl in H3.
        destruct H3 as [[? ?]|[? ?]]; [lia|left; split; [lia|assumption]|right; split; assumption].
    + destruct s2 as [|e2 s2]; [discriminate|]. simpl in E2. injection E2 as E2.
      assert (X2 : ext_from_end (e2 :: s2) (length cur) = e2) by (rewrite <- E2; apply ext_cons_eq).
      pose proof (H3 (length cur)) as A3. rewrite X2, Xc in A3. simpl in A3.
      assert (e2 = d).
      { destruct A3 as [[A _]|[_ A]]; [lia|lia|exact A]. }
      subst e2. apply B2_right; [lia|exact E2|]. apply IH; [lia| | |].
      * intros k Hk. specialize (H1 k Hk). rewrite ext_cons_lt in H1 by lia. exact H1.
      * intros k Hk. specialize (H2 k). rewrite !ext_cons_lt in H2 by lia. apply H2. simpl. lia.
      * intros k Hk. specialize (H3 k). rewrite !ext_cons_lt in H3 by lia. simpl in H3.
        destruct H3 as [[? ?]|[? ?]]; [lia|left; split; assumption|right; split; [lia|assumption]].
Qed.

Lemma BT2_left_BT s1 s2 cur : BT2 s1 s2 cur -> BT s1 cur.
Proof.
  induction 1; [constructor|apply BT_cons; auto|apply BT_cons; auto|apply BT_skip; auto].
Qed.

Lemma BT2_right_BT s1 s2 cur : BT2 s1 s2 cur -> BT s2 cur.
Proof.
  induction 1; [constructor|apply BT_cons; auto|apply BT_skip; auto|apply BT_cons; auto].
Qed.

(* the result of _get_broadcast_shape aligns both operands *)
Lemma broadcast_shape2_BT2 s1 s2 cur : broadcast_shape2 false s1 s2 = Ok cur -> BT2 s1 s2 cur.
Proof.
  rewrite broadcast_shape2_unfold. destruct (bc_ok false s1 s2) eqn:Hok; [|discriminate].
  intros E. inversion E; subst cur. clear E. rewrite bc_ok_false_spec in Hok.
  apply BT2_intro.
  - apply bc_res_length.
  - intros k Hk. rewrite bc_res_ext. destruct (Z.eqb_spec (ext_from_end s1 k) 1); auto.
  - intros k Hk. rewrite bc_res_ext. destruct (Z.eqb_spec (ext_from_end s1 k) 1) as [E|E]; auto.
    destruct (Nat.lt_ge_cases k (length s1)) as [Hk1|Hk1].
    + destruct (Hok k Hk1 Hk) as [?|[?|?]]; [left; congruence|contradiction|right; assumption].
    + rewrite ext_beyond in E by lia. contradiction.
  - intros k Hk. rewrite bc_res_length in Hk. rewrite bc_res_ext.
    destruct (Z.eqb_spec (ext_from_end s1 k) 1) as [E|E].
    + destruct (Nat.lt_ge_cases k (length s2)) as [Hk2|Hk2]; [right; auto|].
      left. split; [lia|]. rewrite E. symmetry. apply ext_beyond. lia.
    + left. split; [|reflexivity]. destruct (Nat.lt_ge_cases k (length s1)); [assumption|].
      rewrite ext_beyond in E by lia. contradiction.
Qed.

(* every operand shape broadcasts into the n-ary broadcast shape *)
Lemma rel_BT shapes r s : np_broadcast_rel shapes r -> In s shapes -> BT s r.
Proof.
  intros [L [A _]] Hin. apply BT_intro.
  - rewrite L. apply max_ndim_ge. exact Hin.
  - intros k _. destruct (A s k Hin); auto.
Qed.

Arguments bcast_idx : simpl never.
Arguments bcast_params : simpl never.

(* ------------------------------------------------------------------ merge_coords is the inverse of
   (bcast_idx, the coordinates along the non-kept axes) *)

Definition fmask (p : list (option bool)) : list bool := map (fun x => negb (is_true x)) p.

Lemma falses_fmask p sh : falses p sh = select (fmask p) sh.
Proof. reflexivity. Qed.

Lemma merge_spec s cur : BT s cur -> forall c e,
  in_range s c -> in_range (falses (bcast_params s cur) cur) e ->
  in_range cur (merge_coords (bcast_params s cur) c e) /\
  bcast_idx s (merge_coords (bcast_params s cur) c e) = c /\
  select (fmask (bcast_params s cur)) (merge_coords (bcast_params s cur) c e) = e.
Proof.
  induction 1 as [|s d cur HB IH|e0 s d cur Hl He HB IH]; intros c e Hc Hr.
  - destruct c; simpl in Hc; [|tauto]. destruct e; simpl in Hr; [|tauto]. simpl. auto.
  - pose proof (BT_length _ _ HB) as Hlen. rewrite bcast_params_skip in * by exact Hlen.
    simpl in Hr. destruct e as [|i e]; [tauto|]. destruct Hr as [Hi Hr].
    specialize (IH c e Hc Hr). destruct IH as [I1 [I2 I3]]. simpl. repeat split; auto; try lia.
    + rewrite bcast_idx_skip; [exact I2|]. rewrite (in_range_length _ _ I1). exact Hlen.
    + f_equal. exact I3.
  - rewrite bcast_params_cons in * by exact Hl. destruct c as [|x c]; [simpl in Hc; tauto|].
    simpl in Hc. destruct Hc as [Hx Hc]. unfold fmask, falses in *.
    destruct (Z.eqb_spec e0 d) as [Ed|Ed].
    + simpl in Hr |- *. specialize (IH c e Hc Hr). destruct IH as [I1 [I2 I3]].
      split; [split; [lia|exact I1]|]. split; [|exact I3].
      rewrite bcast_idx_cons by (rewrite (in_range_length _ _ I1); exact Hl). rewrite I2.
      destruct (Z.eqb_spec e0 1); [f_equal; lia|reflexivity].
    + destruct e as [|i e]; [simpl in Hr; tauto|]. simpl in Hr |- *. destruct Hr as [Hi Hr].
      specialize (IH c e Hc Hr). destruct IH as [I1 [I2 I3]].
      split; [split; [lia|exact I1]|]. split; [|f_equal; exact I3].
      rewrite bcast_idx_cons by (rewrite (in_range_length _ _ I1); exact Hl). rewrite I2.
      assert (e0 = 1) by tauto. subst e0. simpl. f_equal. lia.
Qed.

Lemma merge_inv s cur : BT s cur -> forall q, in_range cur q ->
  in_range s (bcast_idx s q) /\
  in_range (falses (bcast_params s cur) cur) (select (fmask (bcast_params s cur)) q) /\
  merge_coords (bcast_params s cur) (bcast_idx s q) (select (fmask (bcast_params s cur)) q) = q.
Proof.
  induction 1 as [|s d cur HB IH|e0 s d cur Hl He HB IH]; intros q Hq.
  - destruct q; simpl in Hq; [|tauto]. simpl. auto.
  - pose proof (BT_length _ _ HB) as Hlen. rewrite bcast_params_skip by exact Hlen.
    destruct q as [|i q]; [simpl in Hq; tauto|]. simpl in Hq. destruct Hq as [Hi Hq].
    rewrite bcast_idx_skip by (rewrite (in_range_length _ _ Hq); exact Hlen).
    specialize (IH q Hq). destruct IH as [I1 [I2 I3]]. simpl. repeat split; auto; try lia. f_equal. exact I3.
  - rewrite bcast_params_cons by exact Hl.
    destruct q as [|i q]; [simpl in Hq; tauto|]. simpl in Hq. destruct Hq as [Hi Hq].
    rewrite bcast_idx_cons by (rewrite (in_range_length _ _ Hq); exact Hl).
    specialize (IH q Hq). destruct IH as [I1 [I2 I3]]. unfold fmask, falses in *.
    destruct (Z.eqb_spec e0 d) as [Ed|Ed]; simpl.
    + repeat split; auto.
      * destruct (Z.eqb_spec e0 1); lia.
      * destruct (Z.eqb_spec e0 1); lia.
      * rewrite I3. f_equal. destruct (Z.eqb_spec e0 1); lia.
    + assert (e0 = 1) by tauto. subst e0. simpl. repeat split; auto; try lia. f_equal. exact I3.
Qed.

Lemma bcast_in_range s cur q : BT s cur -> in_range cur q -> in_range s (bcast_idx s q).
Proof. intros HB Hq. apply (merge_inv s cur HB q Hq). Qed.

Lemma bcast_idx_id sh q : in_range sh q -> bcast_idx sh q = q.
Proof.
  revert q. induction sh as [|d sh IH]; intros [|i q] H; simpl in H; try tauto; try reflexivity.
  destruct H as [Hi H]. rewrite bcast_idx_cons by (symmetry; apply in_range_length; exact H).
  rewrite IH by exact H. destruct (Z.eqb_spec d 1); f_equal; lia.
Qed.

(* broadcasting twice = broadcasting once *)
Lemma bcast_idx_trans s m cur : BT s m -> BT m cur -> forall q, in_range cur q ->
  bcast_idx s (bcast_idx m q) = bcast_idx s q.
Proof.
  intros H1 H2. revert s H1. induction H2 as [|m d cur HB IH|e0 m d cur Hl He HB IH]; intros s H1 q Hq.
  - destruct q; simpl in Hq; [|tauto]. reflexivity.
  - destruct q as [|i q]; [simpl in Hq; tauto|]. simpl in Hq. destruct Hq as [Hi Hq].
    pose proof (in_range_length _ _ Hq) as Lq. pose proof (BT_length _ _ HB). pose proof (BT_length _ _ H1).
    rewrite bcast_idx_skip by lia. rewrite (bcast_idx_skip s) by lia. apply IH; assumption.
  - destruct q as [|i q]; [simpl in Hq; tauto|]. simpl in Hq. destruct Hq as [Hi Hq].
    pose proof (in_range_length _ _ Hq) as Lq. pose proof (BT_length _ _ HB).
    rewrite bcast_idx_cons by lia.
    assert (Lb : length (bcast_idx m q) = length m).
    { apply in_range_length. eapply bcast_in_range; eauto. }
    inversion H1 as [|s' d' cur' HB'|e1 s' d' cur' Hl' He' HB']; subst.
    + rewrite bcast_idx_skip by (rewrite Lb; apply BT_length; assumption).
      rewrite bcast_idx_skip by (pose proof (BT_length _ _ HB'); lia). apply IH; assumption.
    + rewrite bcast_idx_cons by lia. rewrite bcast_idx_cons by lia. rewrite IH by assumption.
      f_equal. destruct (Z.eqb_spec e1 1); [reflexivity|]. destruct (Z.eqb_spec e0 1); [|reflexivity].
      exfalso. destruct He'; lia.
Qed.

Lemma BT_trans s m cur : BT s m -> BT m cur -> BT s cur.
Proof.
  intros H1 H2. revert s H1. induction H2 as [|m d cur HB IH|e0 m d cur Hl He HB IH]; intros s H1.
  - exact H1.
  - apply BT_skip. apply IH. exact H1.
  - inversion H1 as [|s' d' cur' HB'|e1 s' d' cur' Hl' He' HB']; subst.
    + apply BT_skip. apply IH. assumption.
    + apply BT_cons; [lia| |apply IH; assumption]. destruct He' as [E1 | E1]; destruct He as [E2 | E2]; subst; auto.
Qed.

(* ------------------------------------------------------------------ _get_expanded_coords_data *)

Lemma flat_map_const_length {A B} (g : A -> list B) (l : list A) n :
  (forall a, In a l -> length (g a) = n) -> length (flat_map g l) = (length l * n)%nat.
Proof.
  induction l as [|a l IH]; simpl; intros H; [reflexivity|]. rewrite app_length, IH, (H a) by auto. reflexivity.
Qed.

Lemma all_indices_length sh : shape_ok sh -> length (all_indices sh) = Z.to_nat (size sh).
Proof.
  induction 1 as [|d sh Hd Hok IH]; simpl; [reflexivity|].
  rewrite (flat_map_const_length _ _ (Z.to_nat (size sh))).
  - unfold zrange. rewrite map_length, seq_length. rewrite Z2Nat.inj_mul; [reflexivity|lia|apply size_nonneg; exact Hok].
  - intros a _. rewrite map_length. exact IH.
Qed.

Lemma in_range_app s1 s2 e :
  in_range (s1 ++ s2) e <-> in_range s1 (firstn (length s1) e) /\ in_range s2 (skipn (length s1) e).
Proof.
  revert e. induction s1 as [|d s1 IH]; intros e; simpl.
  - split; [intros H; split; [exact I|exact H]|tauto].
  - destruct e as [|i e]; simpl; [tauto|]. rewrite IH. tauto.
Qed.

Lemma in_range_app_intro s1 s2 e1 e2 : in_range s1 e1 -> in_range s2 e2 -> in_range (s1 ++ s2) (e1 ++ e2).
Proof.
  intros H1 H2. apply in_range_app. pose proof (in_range_length _ _ H1) as L.
  rewrite <- L, firstn_app, Nat.sub_diag, firstn_all, skipn_app, Nat.sub_diag, skipn_all. simpl.
  rewrite app_nil_r. auto.
Qed.

Lemma select_app {A} (m1 m2 : list bool) (l1 l2 : list A) :
  length m1 = length l1 -> select (m1 ++ m2) (l1 ++ l2) = select m1 l1 ++ select m2 l2.
Proof.
  revert l1. induction m1 as [|b m1 IH]; intros [|x l1] H; simpl in *; try discriminate; [reflexivity|].
  rewrite IH by lia. destruct b; reflexivity.
Qed.

Lemma first_true_split p fd :
  first_true p = Some fd ->
  (fd < length p)%nat /\ is_true (nth fd p None) = true /\ forall k, (k < fd)%nat -> is_true (nth k p None) = false.
Proof.
  revert fd. induction p as [|x p IH]; intros fd H; simpl in H; [discriminate|].
  destruct (is_true x) eqn:E.
  - inversion H; subst. simpl. repeat split; [lia|exact E|intros; lia].
  - destruct (first_true p) as [n|]; [|discriminate]. inversion H; subst. destruct (IH n eq_refl) as [H1 [H2 H3]].
    simpl. repeat split; [lia|exact H2|]. intros [|k] Hk; [exact E|]. apply H3. lia.
Qed.

Lemma first_true_none p : first_true p = None -> forall x, In x p -> is_true x = false.
Proof.
  induction p as [|y p IH]; simpl; intros H x Hx; [tauto|]. destruct (is_true y) eqn:E; [discriminate|].
  destruct (first_true p); [discriminate|]. destruct Hx as [->|Hx]; auto.
Qed.

Lemma falses_split p sh fd :
  length p = length sh -> first_true p = Some fd ->
  falses p sh = falses (firstn fd p) (firstn fd sh) ++ falses (skipn (S fd) p) (skipn (S fd) sh).
Proof.
  intros Hl Hf. destruct (first_true_split p fd Hf) as [H1 [H2 _]].
  rewrite <- (firstn_skipn fd p) at 1. rewrite <- (firstn_skipn fd sh) at 1.
  unfold falses. rewrite map_app, select_app by (rewrite map_length, !firstn_length; lia). f_equal.
  assert (E : skipn fd p = nth fd p None :: skipn (S fd) p).
  { clear -H1. revert fd H1. induction p as [|x p IH]; intros [|fd] H; simpl in *; try lia; [reflexivity|].
    apply IH. lia. }
  rewrite E. destruct (skipn fd sh) as [|d r] eqn:Es.
  - exfalso. assert (length (skipn fd sh) = 0%nat) by (rewrite Es; reflexivity). rewrite skipn_length in H. lia.
  - assert (r = skipn (S fd) sh).
    { clear -Es. revert fd Es. induction sh as [|x sh IH]; intros [|fd] Es; simpl in *; try discriminate.
      - inversion Es; reflexivity.
      - apply IH. exact Es. }
    subst r. simpl. rewrite H2. reflexivity.
Qed.

Lemma falses_all p sh : length p = length sh -> first_true p = None -> falses p sh = sh.
Proof.
  intros Hl Hf. pose proof (first_true_none p Hf) as Hn. clear Hf. unfold falses.
  revert sh Hl. induction p as [|x p IH]; intros [|d sh] Hl; simpl in *; try discriminate; [reflexivity|].
  rewrite (Hn x) by auto. simpl. f_equal. apply IH; [intros; apply Hn; auto|lia].
Qed.

(* without a kept axis the operand has a single position *)
Lemma no_true_unique s cur : BT s cur -> first_true (bcast_params s cur) = None ->
  forall c c', in_range s c -> in_range s c' -> c = c'.
Proof.
  induction 1 as [|s d cur HB IH|e0 s d cur Hl He HB IH]; intros Hf c c' Hc Hc'.
  - destruct c, c'; simpl in *; tauto.
  - rewrite bcast_params_skip in Hf by (apply BT_length; exact HB). simpl in Hf.
    destruct (first_true (bcast_params s cur)); [discriminate|]. apply IH; auto.
  - rewrite bcast_params_cons in Hf by exact Hl. simpl in Hf.
    destruct (Z.eqb_spec e0 d) as [Ed|Ed]; [discriminate|].
    destruct (first_true (bcast_params s cur)); [discriminate|].
    destruct c as [|x c]; destruct c' as [|x' c']; simpl in Hc, Hc'; try tauto.
    assert (e0 = 1) by tauto. subst e0. f_equal; [lia|]. apply IH; tauto.
Qed.

Lemma nested_flat_map_prod {A B C R} (g : A -> B -> C -> R) (l1 : list A) (l2 : list B) (l3 : list C) :
  flat_map (fun a => flat_map (fun b => map (fun c => g a b c) l3) l2) l1 =
  map (fun x => g (fst x) (fst (snd x)) (snd (snd x))) (list_prod l1 (list_prod l2 l3)).
Proof.
  induction l1 as [|a l1 IH]; simpl; [reflexivity|]. rewrite map_app, IH. f_equal.
  rewrite map_map. simpl. clear IH. induction l2 as [|b l2 IH2]; simpl; [reflexivity|].
  rewrite map_app, IH2, map_map. reflexivity.
Qed.

Lemma NoDup_fst_inj {A B} (l : list (A * B)) x y :
  NoDup (map fst l) -> In x l -> In y l -> fst x = fst y -> x = y.
Proof.
  induction l as [|z l IH]; simpl; intros Hnd Hx Hy E; [tauto|]. inversion Hnd as [|? ? Hz Hl]; subst.
  destruct Hx as [->|Hx]; destruct Hy as [->|Hy]; auto.
  - exfalso. apply Hz. rewrite E. apply in_map. exact Hy.
  - exfalso. apply Hz. rewrite <- E. apply in_map. exact Hx.
Qed.

Lemma app_inv_length {A} (a a' c c' : list A) : length a = length a' -> a ++ c = a' ++ c' -> a = a' /\ c = c'.
Proof.
  revert a'. induction a as [|x a IH]; intros [|x' a'] Hl E; simpl in *; try discriminate; [auto|].
  inversion E; subst. destruct (IH a') as [-> ->]; auto.
Qed.

Definition expand_rows {D} (rows : list (idx * D)) (params : list (option bool)) (bsh : shape) : list (idx * D) :=
  let '(c, d) := expand_coords_data (map fst rows) (map snd rows) params bsh in combine c d.

Lemma combine_repeat_In {A B} (l : list A) (v : B) n x w :
  length l = n -> (In (x, w) (combine l (repeat v n)) <-> In x l /\ w = v).
Proof.
  intros <-. induction l as [|a l IH]; simpl; [tauto|]. rewrite IH. split.
  - intros [E|[H1 H2]]; [inversion E; auto|auto].
  - intros [[->|H] ->]; auto.
Qed.

Lemma expand_coords_data_exact {D} (coords : list idx) (data : list D) params bsh :
  expand_coords_data coords data params bsh = expand_coords_data_Z coords data params bsh.
Proof. reflexivity. Qed.

Theorem expand_rows_spec {D} s T (rows : list (idx * D)) :
  BT s T -> shape_ok T -> Forall (fun r => in_range s (fst r)) rows -> NoDup (map fst rows) ->
  NoDup (map fst (expand_rows rows (bcast_params s T) T)) /\
  forall q v, In (q, v) (expand_rows rows (bcast_params s T) T) <-> in_range T q /\ In (bcast_idx s q, v) rows.
Proof.
  intros HB Hok Hr Hnd. pose proof (BT_length _ _ HB) as Hlen.
  pose proof (bcast_params_length s T Hlen) as Hpl. set (p := bcast_params s T) in *.
  unfold expand_rows. rewrite expand_coords_data_exact. unfold expand_coords_data_Z. rewrite combine_fst_snd.
  destruct (first_true p) as [fd|] eqn:Hf.
  - set (pre := falses (firstn fd p) (firstn fd T)). set (post := falses (skipn (S fd) p) (skipn (S fd) T)).
    assert (Hsplit : falses p T = pre ++ post) by (apply falses_split; assumption).
    rewrite combine_fst_snd.
    rewrite (nested_flat_map_prod (fun ipre cd ipost => (merge_coords p (fst cd) (ipre ++ ipost), snd cd))).
    set (L := list_prod (all_indices pre) (list_prod rows (all_indices post))).
    assert (HL : forall x, In x L <-> in_range pre (fst x) /\ In (fst (snd x)) rows /\ in_range post (snd (snd x))).
    { intros [a [b c]]. unfold L. rewrite !in_prod_iff, !all_indices_In. simpl. tauto. }
    split.
    + rewrite map_map. simpl. apply NoDup_map_in.
      * intros [a [b c]] [a' [b' c']] Hx Hy E. apply HL in Hx. apply HL in Hy. simpl in *.
        destruct Hx as [Ha [Hb Hc]]. destruct Hy as [Ha' [Hb' Hc']].
        rewrite Forall_forall in Hr.
        assert (R1 : in_range (falses p T) (a ++ c)) by (rewrite Hsplit; apply in_range_app_intro; assumption).
        assert (R2 : in_range (falses p T) (a' ++ c')) by (rewrite Hsplit; apply in_range_app_intro; assumption).
        destruct (merge_spec s T HB (fst b) (a ++ c) (Hr b Hb) R1) as [_ [M1 M2]].
        destruct (merge_spec s T HB (fst b') (a' ++ c') (Hr b' Hb') R2) as [_ [M1' M2']].
        fold p in M1, M2, M1', M2'. rewrite E in M1, M2.
        assert (b = b') by (apply (NoDup_fst_inj rows); auto; congruence). subst b'.
        assert (Eac : a ++ c = a' ++ c') by congruence.
        apply app_inv_length in Eac; [destruct Eac; subst; reflexivity|].
        rewrite (in_range_length _ _ Ha), (in_range_length _ _ Ha'). reflexivity.
      * unfold L. apply NoDup_list_prod; [apply all_indices_NoDup|].
        apply NoDup_list_prod; [eapply NoDup_map_inv; exact Hnd|apply all_indices_NoDup].
    + intros q v. rewrite in_map_iff. split.
      * intros [[a [b c]] [E Hx]]. apply HL in Hx. simpl in *. destruct Hx as [Ha [Hb Hc]].
        inversion E; subst q v. clear E. rewrite Forall_forall in Hr.
        assert (R1 : in_range (falses p T) (a ++ c)) by (rewrite Hsplit; apply in_range_app_intro; assumption).
        destruct (merge_spec s T HB (fst b) (a ++ c) (Hr b Hb) R1) as [M0 [M1 _]]. fold p in M0, M1.
        split; [exact M0|]. rewrite M1. destruct b; exact Hb.
      * intros [Hq Hin]. destruct (merge_inv s T HB q Hq) as [_ [I2 I3]]. fold p in I2, I3.
        rewrite Hsplit in I2. apply in_range_app in I2. destruct I2 as [Ia Ic].
        exists (firstn (length pre) (select (fmask p) q), ((bcast_idx s q, v), skipn (length pre) (select (fmask p) q))).
        simpl. split.
        -- rewrite firstn_skipn, I3. reflexivity.
        -- apply HL. simpl. auto.
  - assert (HF : falses p T = T) by (apply falses_all; assumption). rewrite HF.
    assert (Huniq : forall c c', in_range s c -> in_range s c' -> c = c') by (apply (no_true_unique s T HB Hf)).
    pose proof (all_indices_length T Hok) as HN.
    destruct rows as [|[c0 v0] rows].
    + simpl. rewrite combine_nil. split; [constructor|]. intros q v. simpl. tauto.
    + destruct rows as [|[c1 v1] rows].
      * simpl. rewrite app_nil_r. split.
        -- rewrite combine_map_fst by (rewrite repeat_length; exact HN). apply all_indices_NoDup.
        -- intros q v. rewrite combine_repeat_In by (symmetry; rewrite HN; reflexivity). rewrite all_indices_In. split.
           ++ intros [Hq ->]. split; [exact Hq|]. left. f_equal. inversion Hr; subst. simpl in *.
              apply Huniq; [assumption|]. eapply bcast_in_range; eauto.
           ++ intros [Hq [E|[]]]. inversion E; auto.
      * exfalso. inversion Hr as [|? ? R0 Hr']; subst. inversion Hr' as [|? ? R1 _]; subst. simpl in *.
        inversion Hnd as [|? ? Hn _]; subst. apply Hn. left. apply Huniq; assumption.
Qed.
