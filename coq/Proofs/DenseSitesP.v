(* Proofs/DenseSitesP.v — C16, tie (i): the generated table of dense-allocation sites against the reviewed
   table of Model/DenseSites.v (finite checks by vm_compute over the GENERATED table). *)
From Coq Require Import String ZArith List Bool.
From Verif Require Import S_dense_sites DenseSites.
Import ListNotations.
Local Open Scope string_scope.

(* Full statement "every dense-allocation site of the anchored files is sanctioned",
     forallb sanctioned dense_sites = true,
   is FALSE of the source as it stands: three sites allocate or address a product of extents inside a
   listed operation family (GCXS reductions: finding G1; GCXS indexing: G2; the scalar operand of an
   element-wise operation viewed at the full logical shape: E1). *)
Lemma dense_sites_sanctioned_refuted_proof :
  exists s, In s dense_sites /\ sanctioned s = false /\ product_site s = true.
Proof.
  exists (mkSite "_compressed/compressed.py" "GCXS._reduce_calc" "np.arange"
                 "x._compressed_shape[0], dtype=x.indptr.dtype" 1).
  vm_compute. repeat split; auto 200.
Qed.

Lemma dense_sites_reviewed_proof :
  forallb (fun s => xorb (sanctioned s) (product_site s)) dense_sites = true.
Proof. vm_compute. reflexivity. Qed.

Lemma product_sites_present_proof :
  forallb (fun a => existsb (fun s => site_matches s a) dense_sites) product_sites = true
  /\ length (filter product_site dense_sites) = 3%nat.
Proof. vm_compute. split; reflexivity. Qed.

Lemma inplace_writes_private_proof : writes_reviewedb = true.
Proof. vm_compute. reflexivity. Qed.

(* the private copies the coordinate-arithmetic functions work on are part of the reviewed table *)
Lemma coordinate_arithmetic_on_copies_proof :
  forallb (fun r => existsb (fun s => write_matches s r) inplace_sites)
    [mkRW "_coo/common.py" "flip" "new_coords" "x.coords.copy()" WFresh;
     mkRW "_coo/common.py" "roll" "coords" "np.copy(a.coords)" WFresh;
     mkRW "_coo/common.py" "_sort_coo" "data" "data.copy()" WFresh;
     mkRW "_coo/common.py" "_sort_coo" "result_indices" "np.empty_like(sort_coords)" WFresh;
     mkRW "_coo/common.py" "_arg_minmax_common" "<argument 0 of _compute_minmax_args>" "x.coords.copy()" WFresh;
     mkRW "_coo/common.py" "_arg_minmax_common" "<argument 1 of _compute_minmax_args>" "x.data.copy()" WFresh] = true.
Proof. vm_compute. reflexivity. Qed.
