(* Proofs/DOKExtP.v — C12, extension: histories over raw (uncast) values of integer / boolean
   dtypes mixed with asformat("coo") / from_coo round trips, and reads through the real
   __getitem__ path (DokGetitem.dok_getitem, on top of agent c02b's dok_getitem_den_proof and
   agent c05's from_iter_entries / dok_items_canonical). *)
From Coq Require Import ZArith List Bool Lia ZifyBool.
From Verif Require Import Py Shape COO COOP NpIndex CooIndex CooIndexNormP Convert ConvertP DokGetitem DokGetitemP
     NpAssign DOK DOKP DOKExt.
Import ListNotations.
Open Scope Z_scope.

Lemma zeqb_eq : forall a b : Z, (a =? b) = true <-> a = b.
Proof. intros a b. apply Z.eqb_eq. Qed.

Notation zwf := (wf Z Z.eqb).

(* ------------------------------------------------------------------ casts *)
Definition dtype_ok (dt : dtype) : bool := match dt with DInt w _ => 0 <? w | DBool => true end.

Lemma cast_int_fits dt z : dtype_ok dt = true -> dt_fits dt z = true -> cast_int dt z = z.
Proof.
  destruct dt as [w [|]|]; unfold dtype_ok, dt_fits, dt_min, dt_max, cast_int; intros Hw Hf.
  - assert (Hp : 2 ^ w = 2 * 2 ^ (w - 1)).
    { replace w with (Z.succ (w - 1)) at 1 by lia. rewrite Z.pow_succ_r by lia. reflexivity. }
    assert (0 < 2 ^ (w - 1)) by (apply Z.pow_pos_nonneg; lia).
    rewrite Z.mod_small by lia. lia.
  - assert (0 < 2 ^ w) by (apply Z.pow_pos_nonneg; lia). rewrite Z.mod_small by lia. reflexivity.
  - destruct (Z.eqb_spec z 0); lia.
Qed.

(* the conversion of __setitem__ (np.asarray) is NumPy's assignment conversion, unless the
   value is a NumPy integer scalar that does not fit *)
Lemma cast_agree dt adv raw :
  dtype_ok dt = true -> npint_fits dt adv raw = true -> dok_cast dt raw = np_cast dt adv raw.
Proof.
  intros Hd Hf. destruct raw as [z|n d|z|sh fl|sh fl]; try reflexivity.
  unfold dok_cast, np_cast, weak_int. destruct adv; [reflexivity|].
  destruct dt as [w [|]|]; try reflexivity.
  cbn [npint_fits dt_unsigned orb] in Hf. cbn [dt_unsigned orb].
  rewrite Hf. rewrite cast_int_fits by assumption. reflexivity.
Qed.

Lemma np_value_id_eq dt sh k vsh vflat :
  np_value_id dt sh k vsh = true -> np_value dt sh k (vsh, vflat) = (vsh, vflat).
Proof.
  unfold np_value_id, np_value. cbn [fst snd]. destruct vsh as [|d r].
  - intros _. destruct (dt_is_bool dt && elem_key sh k && forallb (Z.eqb 1) []); reflexivity.
  - intros H. destruct (dt_is_bool dt && elem_key sh k && forallb (Z.eqb 1) (d :: r)); [discriminate|reflexivity].
Qed.

(* ------------------------------------------------------------------ the round trip *)
Lemma roundtrip_id sh fill (st : state Z) :
  zwf fill sh st -> roundtrip sh fill st = st.
Proof.
  intros Hw. unfold roundtrip.
  destruct (dok_tocoo_proof Z Z.eqb fill sh st Hw) as (Hc & _).
  apply canonicalb_spec in Hc.
  pose proof (from_iter_entries_any Z Z.eqb Z.add (to_coo sh fill st) Hc) as Hf.
  assert (He : entries (to_coo sh fill st) = st) by (unfold entries, to_coo; simpl; apply DOKP.combine_fst_snd).
  rewrite He in Hf. simpl in Hf. rewrite Hf.
  rewrite (dok_items_canonical Z Z.add _ Hc). exact He.
Qed.

(* ------------------------------------------------------------------ one step, whole histories *)
Lemma hstep_spec dt sh fill (st : state Z) o :
  shape_ok sh -> dtype_ok dt = true -> hop_dom dt sh o = true -> zwf fill sh st ->
  (forall ix, abs fill (hstep dt sh fill st o) ix = np_hstep dt sh (abs fill st) o ix) /\
  zwf fill sh (hstep dt sh fill st o).
Proof.
  intros Hok Hdt Hdom Hw. destruct o as [k raw|]; simpl in *.
  - apply andb_true_iff in Hdom. destruct Hdom as [Hnf Hdom].
    rewrite (cast_agree dt (key_adv k) raw Hdt Hnf).
    destruct (np_cast dt (key_adv k) raw) as [[[vsh vflat]|e]|]; [| |discriminate].
    + apply andb_true_iff in Hdom. destruct Hdom as [Hid Hdom].
      rewrite (np_value_id_eq dt sh k vsh vflat Hid). cbn [fst snd].
      destruct (step_spec Z Z.eqb zeqb_eq fill sh st (k, arr_of_flat vsh vflat) Hok Hdom) as [Hs Hws].
      split; [exact Hs|apply Hws; exact Hw].
    + split; [reflexivity|exact Hw].
  - rewrite (roundtrip_id sh fill st Hw). split; [reflexivity|exact Hw].
Qed.

Lemma np_hstep_ext dt sh (a a' : idx -> Z) o :
  (forall ix, a ix = a' ix) -> forall ix, np_hstep dt sh a o ix = np_hstep dt sh a' o ix.
Proof.
  intros He. destruct o as [k raw|]; simpl; [|exact He].
  destruct (np_cast dt (key_adv k) raw) as [[v|e]|]; try exact He.
  apply np_assign_ext. exact He.
Qed.

Lemma hrun_refines dt sh fill : forall ops (st : state Z) (a : idx -> Z),
  shape_ok sh -> dtype_ok dt = true -> forallb (hop_dom dt sh) ops = true ->
  (forall ix, abs fill st ix = a ix) -> zwf fill sh st ->
  (forall ix, abs fill (fold_left (hstep dt sh fill) ops st) ix = fold_left (np_hstep dt sh) ops a ix) /\
  zwf fill sh (fold_left (hstep dt sh fill) ops st).
Proof.
  induction ops as [|o ops IH]; intros st a Hok Hdt Hdom He Hw; simpl.
  - split; assumption.
  - simpl in Hdom. apply andb_true_iff in Hdom. destruct Hdom as [Hd1 Hd2].
    destruct (hstep_spec dt sh fill st o Hok Hdt Hd1 Hw) as [Hs Hws].
    apply IH; auto. intros ix. rewrite Hs. apply np_hstep_ext. exact He.
Qed.

Theorem dok_refines_dense_ext_proof dt sh fill ops :
  shape_ok sh -> dtype_ok dt = true -> forallb (hop_dom dt sh) ops = true ->
  forall ix, abs fill (hrun dt sh fill ops) ix = np_hrun dt sh fill ops ix.
Proof.
  intros Hok Hdt Hdom. unfold hrun, np_hrun.
  apply (hrun_refines dt sh fill ops [] (np_full fill) Hok Hdt Hdom); [reflexivity|apply wf_nil].
Qed.

Theorem dok_wf_ext_proof dt sh fill ops :
  shape_ok sh -> dtype_ok dt = true -> forallb (hop_dom dt sh) ops = true ->
  zwf fill sh (hrun dt sh fill ops).
Proof.
  intros Hok Hdt Hdom. unfold hrun.
  apply (hrun_refines dt sh fill ops [] (np_full fill) Hok Hdt Hdom); [reflexivity|apply wf_nil].
Qed.

Theorem dok_nnz_ext_proof dt sh fill ops :
  shape_ok sh -> dtype_ok dt = true -> forallb (hop_dom dt sh) ops = true ->
  nnz (hrun dt sh fill ops) = np_count_nonfill Z.eqb sh (np_hrun dt sh fill ops) fill.
Proof.
  intros Hok Hdt Hdom.
  rewrite (wf_nnz Z Z.eqb zeqb_eq fill sh) by (apply dok_wf_ext_proof; assumption).
  unfold np_count_nonfill. f_equal. f_equal. apply filter_ext. intros ix.
  rewrite dok_refines_dense_ext_proof by assumption. reflexivity.
Qed.

(* the round trip alone: asformat("coo") then DOK.from_coo gives back the very same dict *)
Theorem dok_roundtrip_state_proof dt sh fill ops :
  shape_ok sh -> dtype_ok dt = true -> forallb (hop_dom dt sh) ops = true ->
  roundtrip sh fill (hrun dt sh fill ops) = hrun dt sh fill ops.
Proof.
  intros Hok Hdt Hdom. apply roundtrip_id. apply dok_wf_ext_proof; assumption.
Qed.

(* ------------------------------------------------------------------ reads through the real path *)
Lemma wf_dok_ok sh fill (st : state Z) : zwf fill sh st -> dok_ok Z sh st.
Proof.
  intros (Hs & Hr & _). split; [apply sorted_nodup; exact Hs|exact Hr].
Qed.

Lemma den_dok_as_coo sh fill (st : state Z) ix :
  zwf fill sh st -> den (dok_as_coo sh st fill) ix = abs fill st ix.
Proof.
  intros Hw. destruct (dok_tocoo_proof Z Z.eqb fill sh st Hw) as (_ & _ & Hd & _). exact (Hd ix).
Qed.

Theorem dok_real_read_proof (kf : nat -> nat) sh fill (st : state Z) (ix : index) :
  shape_ok sh -> zwf fill sh st ->
  no_zero_step ix = true -> coo_ix_ok sh ix -> fancy_key ix = false ->
  match np_index sh ix with
  | Raise e => real_getitem kf sh fill st ix = Raise e /\ e = IndexError
  | Ok (sh', g) =>
    match real_getitem kf sh fill st ix with
    | Ok (DArr sh'' it' f') =>
      sh'' = sh' /\ f' = fill /\ NoDup (map fst it') /\ Forall (in_range sh') (map fst it')
      /\ forall j, in_range sh' j -> den (dok_as_coo sh'' it' f') j = abs fill st (g j)
    | Ok (DScalar v) => sh' = [] /\ v = abs fill st (g [])
    | Raise _ => False
    end
  end.
Proof.
  intros Hok Hw Hz Hix Harr.
  pose proof (dok_getitem_den_proof Z Z.eqb Z.add kf sh st fill ix
                (wf_dok_ok sh fill st Hw) (shape_okb_ok sh Hok) Hz Hix Harr) as H.
  unfold real_getitem.
  destruct (np_index sh ix) as [[sh' g]|e]; [|exact H].
  destruct (dok_getitem Z Z.eqb Z.add kf sh st fill ix) as [[v|sh'' it' f']|]; [| |exact H].
  - destruct H as [H1 H2]. split; [exact H1|]. rewrite H2. apply den_dok_as_coo. exact Hw.
  - destruct H as (H1 & H2 & H3 & H4 & H5). repeat split; try assumption.
    intros j Hj. rewrite (H5 j Hj). apply den_dok_as_coo. exact Hw.
Qed.

(* after any in-domain history: the real read returns NumPy's x[ix] of NumPy's array *)
Theorem dok_real_read_after_proof (kf : nat -> nat) dt sh fill ops (ix : index) :
  shape_ok sh -> dtype_ok dt = true -> forallb (hop_dom dt sh) ops = true ->
  no_zero_step ix = true -> coo_ix_ok sh ix -> fancy_key ix = false ->
  match np_index sh ix with
  | Raise e => real_getitem kf sh fill (hrun dt sh fill ops) ix = Raise e /\ e = IndexError
  | Ok (sh', g) =>
    match real_getitem kf sh fill (hrun dt sh fill ops) ix with
    | Ok (DArr sh'' it' f') =>
      sh'' = sh' /\ f' = fill /\ NoDup (map fst it') /\ Forall (in_range sh') (map fst it')
      /\ forall j, in_range sh' j -> den (dok_as_coo sh'' it' f') j = np_hrun dt sh fill ops (g j)
    | Ok (DScalar v) => sh' = [] /\ v = np_hrun dt sh fill ops (g [])
    | Raise _ => False
    end
  end.
Proof.
  intros Hok Hdt Hdom Hz Hix Harr.
  pose proof (dok_real_read_proof kf sh fill (hrun dt sh fill ops) ix Hok
                (dok_wf_ext_proof dt sh fill ops Hok Hdt Hdom) Hz Hix Harr) as H.
  pose proof (dok_refines_dense_ext_proof dt sh fill ops Hok Hdt Hdom) as Hr.
  destruct (np_index sh ix) as [[sh' g]|e]; [|exact H].
  destruct (real_getitem kf sh fill (hrun dt sh fill ops) ix) as [[v|sh'' it' f']|]; [| |exact H].
  - destruct H as [H1 H2]. split; [exact H1|]. rewrite H2. apply Hr.
  - destruct H as (H1 & H2 & H3 & H4 & H5). repeat split; try assumption.
    intros j Hj. rewrite (H5 j Hj). apply Hr.
Qed.

(* the index-sequence keys (_fancy_getitem) *)
Theorem dok_real_fancy_read_after_proof (kf : nat -> nat) dt sh fill ops (ls : list (list Z)) (n : nat) :
  shape_ok sh -> dtype_ok dt = true -> forallb (hop_dom dt sh) ops = true ->
  fancy_ok sh ls n ->
  exists g it',
    np_index sh (map IArr ls) = Ok ([Z.of_nat n], g)
    /\ real_getitem kf sh fill (hrun dt sh fill ops) (map IArr ls) = Ok (DArr [Z.of_nat n] it' fill)
    /\ forall j, in_range [Z.of_nat n] j ->
         den (dok_as_coo [Z.of_nat n] it' fill) j = np_hrun dt sh fill ops (g j).
Proof.
  intros Hok Hdt Hdom Hf.
  pose proof (dok_wf_ext_proof dt sh fill ops Hok Hdt Hdom) as Hw.
  destruct (dok_fancy_getitem_den_proof Z Z.eqb Z.add kf sh (hrun dt sh fill ops) fill ls n
              (wf_dok_ok sh fill _ Hw) (shape_okb_ok sh Hok) Hf) as (g & it' & H1 & H2 & _ & _ & H5).
  exists g, it'. split; [exact H1|]. split; [exact H2|].
  intros j Hj. rewrite (H5 j Hj). rewrite den_dok_as_coo by exact Hw.
  apply (dok_refines_dense_ext_proof dt sh fill ops Hok Hdt Hdom).
Qed.

(* ------------------------------------------------------------------ witnesses, non-vacuity *)
(* a None in an assignment key: d[None, 0] = 5 raises IndexError; NumPy assigns x[0] *)
Theorem dok_newaxis_refuted_proof :
  exists (sh : shape) (fill : Z) (op : key * arr Z) (ix : idx),
    shape_ok sh /\ op_valid sh op = true /\
    abs fill (step Z.eqb sh fill [] op) ix <> np_assign sh (np_full fill) op ix.
Proof.
  exists [3], 0, (KIndex [INone; IInt 0], zsc 5), [0].
  split; [repeat constructor; lia|]. split; [reflexivity|]. vm_compute. congruence.
Qed.

(* d = DOK((3,), dtype=int8); d[0] = np.int64(300) stores 44; NumPy raises OverflowError *)
Theorem dok_npint_refuted_proof :
  exists (dt : dtype) (sh : shape) (fill : Z) (o : hop) (ix : idx),
    shape_ok sh /\ dtype_ok dt = true /\
    abs fill (hstep dt sh fill [] o) ix <> np_hstep dt sh (np_full fill) o ix.
Proof.
  exists (DInt 8 true), [3], 0, (HAssign (KBasic [KInt 0]) (RNpInt 300)), [0].
  split; [repeat constructor; lia|]. split; [reflexivity|]. vm_compute. congruence.
Qed.

Definition ex_hops : list hop :=
  [ HAssign (KIndex [IEllipsis; IInt 0]) (RPyInt 5);                         (* d[..., 0] = 5 *)
    HAssign (KIndex [IInt (-1); IEllipsis]) (RIntArr [4] [300; -129; 256; 7]); (* wraps: 44 127 0 7 *)
    HRoundtrip;
    HAssign (KBasic [KInt 0; KSlice (Some 1) None (Some 2)]) (RFloatArr [2] [(27, 10); (-5, 2)]);  (* 2.7 -> 2, -2.5 -> -2 *)
    HAssign (KBasic [KInt 1; KInt 1]) (RPyInt 300);                           (* OverflowError: nothing happens *)
    HAssign (KIndex [IEllipsis]) (RIntArr [1] [256]);                          (* 256 wraps to the fill 0: clears *)
    HAssign (KIndex [ISlice None None (Some (-1)); IEllipsis; IInt (-2)]) (RPyFloat (-7) 2);  (* -3.5 -> -3 *)
    HRoundtrip ].

Example dok_ext_nonvacuous :
  shape_ok [3; 4] /\ dtype_ok (DInt 8 true) = true /\ forallb (hop_dom (DInt 8 true) [3; 4]) ex_hops = true /\
  hrun (DInt 8 true) [3; 4] 0 ex_hops = [([0; 2], -3); ([1; 2], -3); ([2; 2], -3)] /\
  np_flat [3; 4] (np_hrun (DInt 8 true) [3; 4] 0 ex_hops) = [0; 0; -3; 0; 0; 0; -3; 0; 0; 0; -3; 0].
Proof. split; [repeat constructor; lia|]. vm_compute. repeat split. Qed.

Example dok_ext_intermediate :
  hrun (DInt 8 true) [3; 4] 0 (firstn 5 ex_hops)
  = [([0; 0], 5); ([0; 1], 2); ([0; 3], -2); ([1; 0], 5); ([2; 0], 44); ([2; 1], 127); ([2; 3], 7)].
Proof. vm_compute. reflexivity. Qed.

Example dok_real_read_nonvacuous :
  no_zero_step [IEllipsis; INone; ISlice None None (Some (-2))] = true /\
  real_getitem (fun _ => 0%nat) [3; 4] 0 (hrun (DInt 8 true) [3; 4] 0 (firstn 5 ex_hops))
               [IInt 0; IEllipsis; INone; ISlice None None (Some (-2))]
  = Ok (DArr [1; 2] [([0; 0], -2); ([0; 1], 2)] 0).
Proof. vm_compute. split; reflexivity. Qed.
