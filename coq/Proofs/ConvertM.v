(* Proofs/ConvertM.v — C05, part 1: the COO constructor (coo_make): sort, sum duplicates, prune
   give a canonical COO whose elements are the sums of the values given for each index. *)
From Coq Require Import ZArith List Bool Lia Sorting.Sorted Sorting.Permutation.
From Verif Require Import Py Shape COO GCXS COOP Convert ConvertL.
Import ListNotations.
Open Scope Z_scope.

Section WithV.
  Variable V : Type.
  Variable veqb : V -> V -> bool.
  Variable add : V -> V -> V.
  Hypothesis veqb_eq : forall a b, veqb a b = true <-> a = b.

  Notation entry := (idx * V)%type.

  (* ================================================================ 1. COO.__init__ *)
  Definition kmatch (sh : shape) (k : Z) (kv : entry) : bool := ravel sh (fst kv) =? k.

  (* the values given for linear location k, in order *)
  Definition kvals (sh : shape) (k : Z) (es : list entry) : list V := map snd (filter (kmatch sh k) es).

  (* the value stored for linear location k (first match) *)
  Definition kfind (sh : shape) (k : Z) (es : list entry) : option V :=
    match filter (kmatch sh k) es with [] => None | kv :: _ => Some (snd kv) end.

  Definition sum_list (l : list V) : option V :=
    match l with [] => None | v :: r => Some (fold_left add r v) end.

  Definition sum_dups (sh : shape) (es : list entry) : list entry :=
    match es with [] => [] | (c, v) :: r => sum_dups_from add sh c v r end.

  Lemma keys_of_cons sh (kv : entry) es : keys_of sh (kv :: es) = ravel sh (fst kv) :: keys_of sh es.
  Proof. reflexivity. Qed.

  Lemma sum_dups_from_distinct sh : forall r c v,
    adjacent_distinct (ravel sh c :: keys_of sh r) = true -> sum_dups_from add sh c v r = (c, v) :: r.
  Proof.
    induction r as [|[c' v'] r IH]; intros c v H; [reflexivity|].
    rewrite keys_of_cons in H. simpl fst in H.
    change (adjacent_distinct (ravel sh c :: ravel sh c' :: keys_of sh r))
      with (negb (ravel sh c =? ravel sh c') && adjacent_distinct (ravel sh c' :: keys_of sh r)) in H.
    apply andb_true_iff in H. destruct H as [Hne Hd]. apply negb_true_iff, Z.eqb_neq in Hne.
    simpl. destruct (Z.eqb_spec (ravel sh c') (ravel sh c)); [lia|]. f_equal. apply IH. exact Hd.
  Qed.

  Lemma sum_duplicates_eq sh es : sum_duplicates add sh es = sum_dups sh es.
  Proof.
    unfold sum_duplicates, sum_dups. destruct (adjacent_distinct (keys_of sh es)) eqn:E; [|reflexivity].
    destruct es as [|[c v] r]; [reflexivity|]. symmetry. apply sum_dups_from_distinct. exact E.
  Qed.

  Lemma kvals_cons sh k (kv : entry) es :
    kvals sh k (kv :: es) = if ravel sh (fst kv) =? k then snd kv :: kvals sh k es else kvals sh k es.
  Proof. unfold kvals, kmatch. simpl. destruct (ravel sh (fst kv) =? k); reflexivity. Qed.

  Lemma kfind_cons sh k (kv : entry) es :
    kfind sh k (kv :: es) = if ravel sh (fst kv) =? k then Some (snd kv) else kfind sh k es.
  Proof. unfold kfind, kmatch. simpl. destruct (ravel sh (fst kv) =? k); reflexivity. Qed.

  Lemma kvals_none_below sh k es :
    Forall (fun kv : entry => k < ravel sh (fst kv)) es -> kvals sh k es = [].
  Proof.
    induction 1 as [|kv es Hk _ IH]; [reflexivity|]. rewrite kvals_cons.
    destruct (Z.eqb_spec (ravel sh (fst kv)) k); [lia|exact IH].
  Qed.

  (* the summed value of every linear location *)
  Lemma kfind_sum_dups_from sh k : forall r c acc,
    StronglySorted Z.le (ravel sh c :: keys_of sh r) ->
    kfind sh k (sum_dups_from add sh c acc r)
    = if ravel sh c =? k then Some (fold_left add (kvals sh k r) acc) else sum_list (kvals sh k r).
  Proof.
    induction r as [|[c' v'] r IH]; intros c acc Hs.
    - simpl. rewrite kfind_cons. simpl. destruct (ravel sh c =? k); reflexivity.
    - rewrite keys_of_cons in Hs. simpl fst in Hs.
      inversion Hs as [|? ? Hs' Hall]; subst. inversion Hall as [|? ? Hcc' Hall']; subst.
      simpl sum_dups_from. rewrite kvals_cons. simpl fst; simpl snd.
      destruct (Z.eqb_spec (ravel sh c') (ravel sh c)) as [E|E].
      + rewrite IH.
        * rewrite E. destruct (ravel sh c =? k); reflexivity.
        * constructor; [inversion Hs'; assumption|exact Hall'].
      + rewrite kfind_cons. simpl fst; simpl snd. rewrite (IH c' v' Hs').
        destruct (Z.eqb_spec (ravel sh c) k) as [Ek|Ek].
        * (* nothing else has the location of c *)
          destruct (Z.eqb_spec (ravel sh c') k); [lia|].
          rewrite kvals_none_below; [reflexivity|].
          inversion Hs' as [|? ? _ Hall2]; subst.
          apply Forall_forall. intros kv Hkv. rewrite Forall_forall in Hall2.
          assert (In (ravel sh (fst kv)) (keys_of sh r)) by (unfold keys_of; apply (in_map (fun kv : entry => ravel sh (fst kv))); exact Hkv).
          specialize (Hall2 _ H). lia.
        * destruct (ravel sh c' =? k); reflexivity.
  Qed.

  Lemma kfind_sum_dups sh k es :
    StronglySorted Z.le (keys_of sh es) -> kfind sh k (sum_dups sh es) = sum_list (kvals sh k es).
  Proof.
    destruct es as [|[c v] r]; intros Hs; [reflexivity|].
    unfold sum_dups. rewrite kfind_sum_dups_from by exact Hs.
    rewrite kvals_cons. simpl. destruct (ravel sh c =? k); reflexivity.
  Qed.

  (* the result is strictly sorted and starts at the location of c *)
  Lemma sum_dups_from_sorted sh : forall r c acc,
    StronglySorted Z.le (ravel sh c :: keys_of sh r) ->
    StronglySorted Z.lt (keys_of sh (sum_dups_from add sh c acc r))
    /\ Forall (fun kv : entry => ravel sh c <= ravel sh (fst kv)) (sum_dups_from add sh c acc r).
  Proof.
    induction r as [|[c' v'] r IH]; intros c acc Hs.
    - simpl. split; [constructor; constructor|constructor; [simpl; lia|constructor]].
    - rewrite keys_of_cons in Hs. simpl fst in Hs.
      inversion Hs as [|? ? Hs' Hall]; subst. inversion Hall as [|? ? Hcc' Hall']; subst.
      simpl sum_dups_from. destruct (Z.eqb_spec (ravel sh c') (ravel sh c)) as [E|E].
      + apply IH. constructor; [inversion Hs'; assumption|exact Hall'].
      + destruct (IH c' v' Hs') as [H1 H2]. split.
        * rewrite keys_of_cons. constructor; [exact H1|]. simpl fst.
          unfold keys_of. rewrite Forall_map. eapply Forall_impl; [|exact H2]. intros; simpl in *; lia.
        * constructor; [simpl; lia|]. eapply Forall_impl; [|exact H2]. intros; simpl in *; lia.
  Qed.

  Lemma sum_dups_sorted sh es :
    StronglySorted Z.le (keys_of sh es) -> StronglySorted Z.lt (keys_of sh (sum_dups sh es)).
  Proof.
    destruct es as [|[c v] r]; intros Hs; [constructor|]. apply sum_dups_from_sorted. exact Hs.
  Qed.

  Lemma sum_dups_from_coords sh : forall r c acc x,
    In x (map fst (sum_dups_from add sh c acc r)) -> x = c \/ In x (map fst r).
  Proof.
    induction r as [|[c' v'] r IH]; intros c acc x H; simpl in *.
    - destruct H as [<-|[]]; auto.
    - destruct (ravel sh c' =? ravel sh c).
      + apply IH in H. tauto.
      + simpl in H. destruct H as [<-|H]; [auto|]. apply IH in H. destruct H as [->|H]; auto.
  Qed.

  Lemma sum_dups_coords sh es x : In x (map fst (sum_dups sh es)) -> In x (map fst es).
  Proof.
    destruct es as [|[c v] r]; simpl; [tauto|]. intros H. apply sum_dups_from_coords in H. destruct H as [->|H]; auto.
  Qed.

  (* ---- _sort_indices *)
  Lemma keyed_invariant sh (es : list entry) :
    Forall (fun p : Z * entry => fst p = ravel sh (fst (snd p))) (combine (keys_of sh es) es).
  Proof. unfold keys_of. rewrite combine_map_self. rewrite Forall_map. apply Forall_forall. intros; reflexivity. Qed.

  Lemma sort_indices_perm sh (es : list entry) : Permutation es (sort_indices sh es).
  Proof.
    unfold sort_indices. destruct (nondecreasing (keys_of sh es)); [apply Permutation_refl|].
    assert (H : es = map snd (combine (keys_of sh es) es))
      by (rewrite map_snd_combine; [reflexivity|unfold keys_of; apply map_length]).
    rewrite H at 1. apply Permutation_map, stable_sort_perm.
  Qed.

  Lemma keys_of_map_snd sh (l : list (Z * entry)) :
    Forall (fun p => fst p = ravel sh (fst (snd p))) l -> keys_of sh (map snd l) = map fst l.
  Proof.
    induction 1 as [|p l Hp _ IH]; [reflexivity|]. rewrite !map_cons, keys_of_cons, IH, Hp. reflexivity.
  Qed.

  Lemma sort_indices_sorted sh (es : list entry) : StronglySorted Z.le (keys_of sh (sort_indices sh es)).
  Proof.
    unfold sort_indices. destruct (nondecreasing (keys_of sh es)) eqn:E; [apply nondecreasing_SS; exact E|].
    rewrite keys_of_map_snd.
    - apply SS_map_kle. apply stable_sort_sorted.
    - eapply Permutation_Forall; [apply stable_sort_perm|apply keyed_invariant].
  Qed.

  Lemma sort_indices_kvals sh k (es : list entry) : kvals sh k (sort_indices sh es) = kvals sh k es.
  Proof.
    unfold sort_indices. destruct (nondecreasing (keys_of sh es)); [reflexivity|].
    unfold kvals. f_equal.
    set (l := combine (keys_of sh es) es).
    assert (Hinv : forall l' : list (Z * entry), Forall (fun p => fst p = ravel sh (fst (snd p))) l' ->
               filter (kmatch sh k) (map snd l') = map snd (filter (fun p => fst p =? k) l')).
    { induction 1 as [|p l' Hp _ IH]; [reflexivity|]. simpl. unfold kmatch at 1. rewrite <- Hp.
      destruct (fst p =? k); simpl; [f_equal|]; exact IH. }
    rewrite Hinv by (eapply Permutation_Forall; [apply stable_sort_perm|apply keyed_invariant]).
    rewrite stable_sort_filter. rewrite <- Hinv by apply keyed_invariant.
    unfold l. rewrite map_snd_combine; [reflexivity|unfold keys_of; apply map_length].
  Qed.

  Lemma sort_indices_sorted_id sh (es : list entry) :
    StronglySorted Z.le (keys_of sh es) -> sort_indices sh es = es.
  Proof.
    intros H. unfold sort_indices. apply nondecreasing_SS in H. rewrite H. reflexivity.
  Qed.

  (* ---- reading the result back *)
  Lemma keys_lt_coords_NoDup sh (es : list entry) :
    StronglySorted Z.lt (keys_of sh es) -> NoDup (map fst es).
  Proof.
    intros H. apply SS_lt_NoDup in H. unfold keys_of in H.
    replace (map (fun kv : entry => ravel sh (fst kv)) es) with (map (ravel sh) (map fst es)) in H
      by (rewrite map_map; reflexivity).
    eapply NoDup_map_inv. exact H.
  Qed.

  Lemma lookup_kfind sh (es : list entry) ix :
    StronglySorted Z.lt (keys_of sh es) -> Forall (in_range sh) (map fst es) -> in_range sh ix ->
    lookup es ix = kfind sh (ravel sh ix) es.
  Proof.
    intros Hs Hr Hix. induction es as [|[c v] r IH]; [reflexivity|].
    rewrite keys_of_cons in Hs. simpl fst in Hs. inversion Hs as [|? ? Hs' Hall]; subst.
    simpl in Hr. inversion Hr as [|? ? Hc Hr']; subst.
    rewrite kfind_cons. simpl fst; simpl snd. simpl lookup.
    destruct (Z.eqb_spec (ravel sh c) (ravel sh ix)) as [E|E].
    - apply (ravel_inj sh) in E; [|assumption|assumption]. subst c.
      rewrite lookup_notin; [rewrite idx_eqb_refl; reflexivity|].
      intros Hin. rewrite Forall_forall in Hall.
      assert (In (ravel sh ix) (keys_of sh r)).
      { unfold keys_of. apply in_map_iff in Hin. destruct Hin as [kv [<- Hkv]]. apply in_map_iff. exists kv. auto. }
      specialize (Hall _ H). lia.
    - rewrite <- IH by assumption.
      destruct (lookup r ix); [reflexivity|].
      destruct (idx_eqb c ix) eqn:Ec; [apply idx_eqb_eq in Ec; subst; congruence|reflexivity].
  Qed.

  Lemma kvals_dup sh (es : list entry) ix :
    Forall (in_range sh) (map fst es) -> in_range sh ix ->
    kvals sh (ravel sh ix) es = map snd (filter (fun kv => idx_eqb (fst kv) ix) es).
  Proof.
    intros Hr Hix. unfold kvals. f_equal. apply filter_ext_in. intros kv Hkv. unfold kmatch.
    rewrite Forall_forall in Hr. assert (Hin : in_range sh (fst kv)) by (apply Hr, in_map, Hkv).
    destruct (idx_eqb (fst kv) ix) eqn:E.
    - apply idx_eqb_eq in E. rewrite E. apply Z.eqb_refl.
    - apply Z.eqb_neq. intros Heq. apply (ravel_inj sh) in Heq; auto.
      subst. rewrite idx_eqb_refl in E. discriminate.
  Qed.

  Definition dup_vals (es : list entry) (ix : idx) : list V :=
    map snd (filter (fun kv => idx_eqb (fst kv) ix) es).

  Lemma map_fst_in_combine {A B} (l1 : list A) (l2 : list B) x : In x (map fst (combine l1 l2)) -> In x l1.
  Proof.
    intros H. apply in_map_iff in H. destruct H as [[a b] [<- Hin]]. eapply in_combine_l; exact Hin.
  Qed.

  (* MVP theorem: unsorted, duplicated, in-range input *)
  Theorem coo_make_den_proof sh coords data fill :
    Forall (in_range sh) coords -> length data = length coords ->
    let r := coo_make veqb add false true false sh coords data fill in
    canonical V r /\ c_shape r = sh /\ c_fill r = fill /\
    forall ix, in_range sh ix ->
      den r ix = match sum_list (dup_vals (combine coords data) ix) with Some s => s | None => fill end.
  Proof.
    intros Hr Hlen. unfold coo_make. cbv zeta. simpl.
    set (es0 := combine coords data).
    set (es1 := sort_indices sh es0).
    rewrite sum_duplicates_eq.
    set (es2 := sum_dups sh es1).
    assert (Hs1 : StronglySorted Z.le (keys_of sh es1)) by apply sort_indices_sorted.
    assert (Hs2 : StronglySorted Z.lt (keys_of sh es2)) by (apply sum_dups_sorted; exact Hs1).
    assert (Hr0 : Forall (in_range sh) (map fst es0)).
    { apply Forall_forall. intros x Hx. apply map_fst_in_combine in Hx. rewrite Forall_forall in Hr. auto. }
    assert (Hr1 : Forall (in_range sh) (map fst es1)).
    { eapply Permutation_Forall; [apply Permutation_map, sort_indices_perm|exact Hr0]. }
    assert (Hr2 : Forall (in_range sh) (map fst es2)).
    { apply Forall_forall. intros x Hx. apply sum_dups_coords in Hx. rewrite Forall_forall in Hr1. auto. }
    unfold coo_of_entries. repeat split; simpl.
    - exact Hr2.
    - (* strictly increasing linear locations = strictly increasing lexicographically *)
      clear -Hs2 Hr2. induction es2 as [|[c v] r IH]; simpl; [constructor|].
      rewrite keys_of_cons in Hs2. simpl in *. inversion Hs2 as [|? ? Hs' Hall]; subst.
      inversion Hr2 as [|? ? Hc Hr']; subst. constructor; [apply IH; assumption|].
      apply Forall_forall. intros x Hx. rewrite Forall_forall in Hall, Hr'.
      apply (ravel_lex sh); auto. apply Hall. unfold keys_of.
      apply in_map_iff in Hx. destruct Hx as [kv [<- Hkv]]. apply in_map_iff. exists kv. auto.
    - rewrite !map_length. reflexivity.
    - intros ix Hix. unfold den, entries. simpl. rewrite combine_fst_snd.
      rewrite (lookup_kfind sh) by assumption.
      unfold es2. rewrite kfind_sum_dups by exact Hs1.
      unfold es1. rewrite sort_indices_kvals. rewrite kvals_dup by assumption. reflexivity.
  Qed.

  (* a canonical COO passes through the constructor unchanged *)
  Lemma canonical_keys_lt (c : coo V) :
    canonical V c -> StronglySorted Z.lt (keys_of (c_shape c) (entries c)).
  Proof.
    intros [Hr [Hs Hl]]. unfold keys_of, entries.
    replace (map (fun kv : entry => ravel (c_shape c) (fst kv)) (combine (c_coords c) (c_data c)))
      with (map (ravel (c_shape c)) (c_coords c)).
    2:{ rewrite <- (map_fst_combine (c_coords c) (c_data c)) at 1 by lia. rewrite map_map. reflexivity. }
    eapply SS_map_mono; [|exact Hs]. intros a b Ha Hb Hab. rewrite Forall_forall in Hr.
    apply (ravel_lex (c_shape c)); auto.
  Qed.

  Lemma coo_make_canonical_id (c : coo V) s h :
    canonical V c ->
    coo_make veqb add s h false (c_shape c) (c_coords c) (c_data c) (c_fill c) = c.
  Proof.
    intros Hc. pose proof (canonical_keys_lt c Hc) as Hk. destruct Hc as [Hr [Hs Hl]].
    unfold coo_make. cbv zeta. fold (entries c).
    assert (H1 : (if s then entries c else sort_indices (c_shape c) (entries c)) = entries c).
    { destruct s; [reflexivity|]. apply sort_indices_sorted_id, SS_lt_le, Hk. }
    rewrite H1.
    assert (H2 : (if h then sum_duplicates add (c_shape c) (entries c) else entries c) = entries c).
    { destruct h; [|reflexivity]. unfold sum_duplicates. rewrite adjacent_distinct_SS_lt by exact Hk. reflexivity. }
    rewrite H2. unfold coo_of_entries, entries.
    rewrite map_fst_combine, map_snd_combine by lia. destruct c; reflexivity.
  Qed.

  (* ---- prune *)
  Lemma prune_canonical (c : coo V) :
    canonical V c ->
    let c' := coo_of_entries (c_shape c) (prune_entries veqb (c_fill c) (entries c)) (c_fill c) in
    canonical V c' /\ prunedb veqb c' = true /\ forall ix, den c' ix = den c ix.
  Proof.
    intros Hc. pose proof Hc as [Hr [Hs Hl]]. cbv zeta. unfold coo_of_entries, prune_entries, entries.
    set (p := fun kv : entry => negb (veqb (snd kv) (c_fill c))).
    split; [|split].
    - repeat split; simpl.
      + apply Forall_forall. intros x Hx. apply filter_fst_incl in Hx.
        rewrite map_fst_combine in Hx by lia. rewrite Forall_forall in Hr. auto.
      + apply SS_map_fst_filter. exact Hs.
      + rewrite !map_length. reflexivity.
    - unfold prunedb. simpl. apply forallb_forall. intros v Hv. apply in_map_iff in Hv.
      destruct Hv as [kv [<- Hkv]]. apply filter_In in Hkv. apply Hkv.
    - intros ix. unfold den, entries. simpl. rewrite combine_fst_snd.
      assert (Hnd : NoDup (map fst (combine (c_coords c) (c_data c)))).
      { rewrite map_fst_combine by lia. apply SS_lex_NoDup. exact Hs. }
      assert (Hnd' : NoDup (map fst (filter p (combine (c_coords c) (c_data c))))).
      { clear -Hnd. induction (combine (c_coords c) (c_data c)) as [|kv l IH]; simpl; [constructor|].
        inversion Hnd; subst. destruct (p kv); simpl; [|auto]. constructor; [|auto].
        intros Hin. apply filter_fst_incl in Hin. contradiction. }
      destruct (lookup (combine (c_coords c) (c_data c)) ix) as [v|] eqn:E.
      + apply (lookup_In V _ _ _ Hnd) in E.
        destruct (p (ix, v)) eqn:Ep.
        * assert (In (ix, v) (filter p (combine (c_coords c) (c_data c)))) by (apply filter_In; auto).
          apply (lookup_In V _ _ _ Hnd') in H. rewrite H. reflexivity.
        * unfold p in Ep. simpl in Ep. apply negb_false_iff, veqb_eq in Ep. subst v.
          destruct (lookup (filter p (combine (c_coords c) (c_data c))) ix) as [w|] eqn:E'; [|reflexivity].
          apply (lookup_In V _ _ _ Hnd') in E'. apply filter_In in E'. destruct E' as [E' _].
          apply (lookup_In V _ _ _ Hnd) in E'. apply (lookup_In V _ _ _ Hnd) in E. congruence.
      + destruct (lookup (filter p (combine (c_coords c) (c_data c))) ix) as [w|] eqn:E'; [|reflexivity].
        apply (lookup_In V _ _ _ Hnd') in E'. apply filter_In in E'. destruct E' as [E' _].
        apply (lookup_In V _ _ _ Hnd) in E'. congruence.
  Qed.
End WithV.
