From Verif Require Import Py PyExt PyValid.

From Coq Require Import ZArith List String.
Import ListNotations.
Open Scope Z_scope.

(* fragment sv_check_compressed_axes from sparse/numba_backend/_utils.py:check_compressed_axes selector=None srchash=d1ca5e9d524d1115 *)
Definition sv_check_compressed_axes (ndim : pyv) (compressed_axes : pyv) : res pyv :=
t1_ <- (py_is_none compressed_axes) ;;
if cond t1_ then (
Ok VNone
) else (
ndim <- (t2_ <- Ok (VBool (isinst_iterable ndim)) ;; if cond t2_ then (
ndim <- (py_len ndim) ;;
Ok (ndim)
) else (
Ok (ndim)
)) ;;
t3_ <- (py_not (VBool (isinst_iterable compressed_axes))) ;;
if cond t3_ then (
Raise ValueError
) else (
t4_ <- (t5_ <- (py_len compressed_axes) ;; py_eq t5_ ndim) ;;
if cond t4_ then (
Raise ValueError
) else (
t6_ <- (t7_ <- ext_all_integral compressed_axes ;; py_not t7_) ;;
if cond t6_ then (
Raise ValueError
) else (
t8_ <- (t9_ <- ext_sorted_set_equal compressed_axes ;; py_not t9_) ;;
if cond t8_ then (
Raise ValueError
) else (
t10_ <- (t12_ <- (t13_ <- ext_min compressed_axes ;; py_lt t13_ (VInt (0))) ;; if cond t12_ then Ok t12_ else (t11_ <- ext_max compressed_axes ;; py_ge t11_ ndim)) ;;
if cond t10_ then (
Raise ValueError
) else (
Ok VNone
)
)
)
)
)
).

(* fragment sv_reshape_size_check from sparse/numba_backend/_coo/core.py:reshape selector=None srchash=724f38eb2b08424c *)
Definition sv_reshape_size_check (size : pyv) (prod : pyv) : res pyv :=
t1_ <- (t2_ <- Ok size ;; t3_ <- Ok prod ;; py_ne t2_ t3_) ;;
if cond t1_ then (
Raise ValueError
) else (
Ok VNone
).

(* fragment sv_transpose_repeat from sparse/numba_backend/_coo/core.py:transpose selector=None srchash=b2dc7d48d6a8f4fb *)
Definition sv_transpose_repeat (axes : pyv) : res pyv :=
t1_ <- (t2_ <- ext_len_unique axes ;; t3_ <- (py_len axes) ;; py_lt t2_ t3_) ;;
if cond t1_ then (
Raise ValueError
) else (
Ok VNone
).

(* fragment sv_transpose_len from sparse/numba_backend/_coo/core.py:transpose selector=None srchash=36f84fb8ccfc0a84 *)
Definition sv_transpose_len (axes : pyv) (ndim : pyv) : res pyv :=
t1_ <- (t4_ <- (t2_ <- (py_len axes) ;; t3_ <- Ok ndim ;; py_eq t2_ t3_) ;; py_not t4_) ;;
if cond t1_ then (
Raise ValueError
) else (
Ok VNone
).

(* fragment sv_bcast_ok from sparse/numba_backend/_umath.py:_get_broadcast_shape selector=None srchash=7da97acaaf2a9548 *)
Definition sv_bcast_ok (l1 : pyv) (l2 : pyv) (is_result : pyv) : res pyv :=
(t3_ <- (py_eq l1 l2) ;; if cond t3_ then Ok t3_ else (t2_ <- (py_eq l1 (VInt (1))) ;; if cond t2_ then Ok t2_ else (t1_ <- (py_eq l2 (VInt (1))) ;; if cond t1_ then (py_not is_result) else Ok t1_))).

(* fragment sv_bcast_more_dims from sparse/numba_backend/_umath.py:_get_broadcast_shape selector=None srchash=77499707371f4eb8 *)
Definition sv_bcast_more_dims (is_result : pyv) (shape1 : pyv) (shape2 : pyv) : res pyv :=
(t3_ <- Ok is_result ;; if cond t3_ then (t1_ <- (py_len shape1) ;; t2_ <- (py_len shape2) ;; py_gt t1_ t2_) else Ok t3_).

(* fragment sv_bcast_dim from sparse/numba_backend/_umath.py:_get_broadcast_shape selector=None srchash=d88d658d14370f65 *)
Definition sv_bcast_dim (l1 : pyv) (l2 : pyv) : res pyv :=
(t1_ <- (py_ne l1 (VInt (1))) ;; if cond t1_ then Ok l1 else Ok l2).

(* fragment sv_td_count_ne from sparse/numba_backend/_common.py:tensordot selector=None srchash=4e53d3e8b6e816b9 *)
Definition sv_td_count_ne (na : pyv) (nb : pyv) : res pyv :=
(py_ne na nb).

(* fragment sv_td_extent_ne from sparse/numba_backend/_common.py:tensordot selector=None srchash=1f24d10ca205b9be *)
Definition sv_td_extent_ne (ea : pyv) (eb : pyv) : res pyv :=
(t1_ <- Ok ea ;; t2_ <- Ok eb ;; py_ne t1_ t2_).

(* fragment sv_td_unequal_raise from sparse/numba_backend/_common.py:tensordot selector=None srchash=be964aff97409193 *)
Definition sv_td_unequal_raise (equal : pyv) : res pyv :=
t1_ <- (py_not equal) ;;
if cond t1_ then (
Raise ValueError
) else (
Ok VNone
).

(* fragment sv_td_zero_elt from sparse/numba_backend/_common.py:tensordot selector=None srchash=5622ebb713e7b983 *)
Definition sv_td_zero_elt (dim : pyv) : res pyv :=
(py_eq dim (VInt (0))).

(* fragment sv_td_newshape_a from sparse/numba_backend/_common.py:tensordot selector=None srchash=ed965138e404bfc7 *)
Definition sv_td_newshape_a (N2 : pyv) : res pyv :=
Ok (VTuple [(VInt (-1)); N2]).

(* fragment sv_td_newshape_b from sparse/numba_backend/_common.py:tensordot selector=None srchash=0c4ac55078c022e9 *)
Definition sv_td_newshape_b (N2 : pyv) : res pyv :=
Ok (VTuple [N2; (VInt (-1))]).

(* site fact site_td_shortcut: `builtins.any((dim == 0 for dim in chain(newshape_a, newshape_b)))` present in sparse/numba_backend/_common.py:tensordot *)
Definition site_td_shortcut : bool := true.

(* fragment sv_dot_1d_shape_check from sparse/numba_backend/_common.py:dot selector=None srchash=76a9acbb66603ce4 *)
Definition sv_dot_1d_shape_check (sa : pyv) (sb : pyv) : res pyv :=
t1_ <- ext_shape_ne sa sb ;;
if cond t1_ then (
Raise ValueError
) else (
Ok VNone
).

(* fragment sv_matmul_0d_check from sparse/numba_backend/_common.py:matmul selector=None srchash=7455b56c40b6c273 *)
Definition sv_matmul_0d_check (nda : pyv) (ndb : pyv) : res pyv :=
t1_ <- (t3_ <- (t4_ <- Ok nda ;; py_eq t4_ (VInt (0))) ;; if cond t3_ then Ok t3_ else (t2_ <- Ok ndb ;; py_eq t2_ (VInt (0)))) ;;
if cond t1_ then (
Raise ValueError
) else (
Ok VNone
).

(* fragment sv_einsum_out_count_check from sparse/numba_backend/_common.py:_parse_einsum_input selector=None srchash=0e698298cc614908 *)
Definition sv_einsum_out_count_check (cnt : pyv) : res pyv :=
t1_ <- (t2_ <- Ok cnt ;; py_ne t2_ (VInt (1))) ;;
if cond t1_ then (
Raise ValueError
) else (
Ok VNone
).

(* fragment sv_cm_n_current_slices from sparse/numba_backend/_coo/indexing.py:_compute_mask selector=None srchash=e615d73c8baac6de *)
Definition sv_cm_n_current_slices (rlen : pyv) (n_pairs : pyv) : res pyv :=
(t2_ <- (t1_ <- Ok rlen ;; py_mul t1_ n_pairs) ;; py_add t2_ (VInt (2))).

(* float test sv_cm_break from sparse/numba_backend/_coo/indexing.py:_compute_mask: `n_current_slices * np.log(n_current_slices / max(n_pairs, 1)) > n_matches + n_pairs` srchash=34c4adf327056998 *)
Definition sv_cm_break (F : fops) (n_current_slices n_pairs n_matches : ft F) : bool :=
(f_gt F (f_mul F n_current_slices (f_log F (f_div F n_current_slices (f_max F n_pairs (f_of_Z F (1)))))) (f_add F n_matches n_pairs)).

(* validation steps of sparse/numba_backend/_common.py:moveaxis in source order; the function ends in a.transpose(order) *)
Definition site_moveaxis_steps : list mv_step := [MvNormSrc; MvNormDst; MvRepeatDst; MvLen].

(* fragment sv_dcn_outer_test from sparse/numba_backend/_common.py:_dot_coo_ndarray selector=None srchash=638841bb10b30445 *)
Definition sv_dcn_outer_test (didx1 : pyv) (n : pyv) (ncols : pyv) : res pyv :=
(t2_ <- (t3_ <- Ok n ;; py_lt didx1 t3_) ;; if cond t2_ then (t1_ <- Ok ncols ;; py_gt t1_ (VInt (0))) else Ok t2_).

(* fragment sv_dcs_outer_test from sparse/numba_backend/_common.py:_dot_coo_ndarray selector=None srchash=638841bb10b30445 *)
Definition sv_dcs_outer_test (didx1 : pyv) (n : pyv) (ncols : pyv) : res pyv :=
(t2_ <- (t3_ <- Ok n ;; py_lt didx1 t3_) ;; if cond t2_ then (t1_ <- Ok ncols ;; py_gt t1_ (VInt (0))) else Ok t2_).

(* site fact site_dot_out_shape: `out_shape = (a.shape[0], b.shape[1])` present in sparse/numba_backend/_common.py:_dot *)
Definition site_dot_out_shape : bool := true.

(* call skeleton site_prog_coo_transpose of sparse/numba_backend/_coo/core.py:COO.transpose skelhash=d2d6500d0bce5859 *)
Definition site_prog_coo_transpose : prog :=
(PSeq (PVal "normalize_axis"%string) (PSeq (PIf PRaise PSkip) (PSeq (PIf PRaise PSkip) (PSeq (PIf PReturn PSkip) (PSeq (PIf (PLoop (PIf PReturn PSkip)) PSkip) (PSeq (PKer "COO"%string) PReturn)))))).

(* call skeleton site_prog_coo_reshape of sparse/numba_backend/_coo/core.py:COO.reshape skelhash=720193657ca590f7 *)
Definition site_prog_coo_reshape : prog :=
(PSeq (PIf PRaise PSkip) (PSeq (PIf PReturn PSkip) (PSeq (PIf (PIf PRaise PSkip) PSkip) (PSeq (PIf PRaise PSkip) (PSeq (PIf (PLoop (PIf PReturn PSkip)) PSkip) (PSeq (PKer "linear_loc"%string) (PSeq (PKer "COO"%string) PReturn))))))).

(* call skeleton site_prog_broadcast_to of sparse/numba_backend/_umath.py:broadcast_to skelhash=8abbd880b0382154 *)
Definition site_prog_broadcast_to : prog :=
(PSeq (PIf PReturn PSkip) (PSeq (PVal "_get_broadcast_shape"%string) (PSeq (PKer "_get_expanded_coords_data"%string) (PSeq (PKer "COO"%string) PReturn)))).

(* call skeleton site_prog_tensordot of sparse/numba_backend/_common.py:tensordot skelhash=be073e9c10fc9da1 *)
Definition site_prog_tensordot : prog :=
(PSeq (PVal "check_zero_fill_value"%string) (PSeq (PIf (PSeq (PIf (PSeq (PIf (PKer "todense"%string) PSkip) (PSeq (PIf (PKer "todense"%string) PSkip) PReturn)) PSkip) PRaise) PSkip) (PSeq (PIf PRaise PSkip) (PSeq (PIf (PSeq (PKer "COO"%string) (PSeq (PIf (PKer "todense"%string) (PIf (PKer "asformat"%string) PSkip)) PReturn)) PSkip) (PSeq (PSeq (PKer "transpose"%string) (PKer "reshape"%string)) (PSeq (PSeq (PKer "transpose"%string) (PKer "reshape"%string)) (PSeq (PKer "_dot"%string) (PSeq (PKer "reshape"%string) PReturn)))))))).

(* call skeleton site_prog_dot of sparse/numba_backend/_common.py:dot skelhash=4c04bf0f8be05b01 *)
Definition site_prog_dot : prog :=
(PSeq (PVal "check_zero_fill_value"%string) (PSeq (PIf PRaise PSkip) (PSeq (PIf (PSeq (PKer "tensordot"%string) PReturn) PSkip) (PSeq (PIf (PSeq (PIf PRaise PSkip) (PSeq (PIf (PKer "as_coo"%string) PSkip) (PSeq (PIf (PKer "as_coo"%string) PSkip) (PSeq (PKer "sum"%string) PReturn)))) PSkip) (PSeq (PKer "tensordot"%string) PReturn))))).

(* call skeleton site_prog_coo_getitem of sparse/numba_backend/_coo/indexing.py:getitem skelhash=5e671a58784d846d *)
Definition site_prog_coo_getitem : prog :=
(PSeq (PIf (PSeq (PIf PRaise PSkip) (PSeq (PKer "COO"%string) PReturn)) PSkip) (PSeq (PVal "normalize_index"%string) (PSeq (PIf PReturn PSkip) (PSeq (PKer "_mask"%string) (PSeq (PIf (PKer "stack"%string) (PIf PSkip (PSeq (PIf PReturn PSkip) PReturn))) (PSeq (PKer "COO"%string) PReturn)))))).

(* call skeleton site_prog_matmul of sparse/numba_backend/_common.py:matmul skelhash=84be86f7610bb858 *)
Definition site_prog_matmul : prog :=
(PSeq (PVal "check_zero_fill_value"%string) (PSeq (PIf PRaise PSkip) (PSeq (PIf PRaise PSkip) (PSeq (PIf (PSeq (PKer "dot"%string) PReturn) PSkip) (PSeq (PIf (PSeq (PKer "dot"%string) PReturn) PSkip) (PSeq (PIf (PSeq (PKer "dot"%string) (PSeq (PKer "transpose"%string) PReturn)) PSkip) (PSeq (PIf (PSeq (PSeq (PKer "reshape"%string) (PKer "dot"%string)) (PSeq (PKer "reshape"%string) PReturn)) PSkip) (PSeq (PIf (PSeq (PKer "reshape"%string) (PSeq (PKer "dot"%string) PReturn)) PSkip) (PSeq (PLoop (PIf PRaise PSkip)) (PSeq (PKer "_matmul_recurser"%string) PReturn)))))))))).

(* call skeleton site_prog_parse_einsum of sparse/numba_backend/_common.py:_parse_einsum_input skelhash=3d8ad94e54624a24 *)
Definition site_prog_parse_einsum : prog :=
(PSeq (PIf PRaise PSkip) (PSeq (PIf (PLoop (PIf PSkip (PIf PRaise PSkip))) (PSeq (PLoop (PLoop (PIf PSkip (PIf PSkip PRaise)))) (PIf (PLoop (PIf PSkip (PIf PSkip PRaise))) PSkip))) (PSeq (PIf (PIf PRaise PSkip) PSkip) (PSeq (PIf (PSeq (PLoop (PIf (PSeq (PIf PRaise PSkip) (PIf PRaise PSkip)) PSkip)) (PIf PSkip (PLoop (PIf PRaise PSkip)))) PSkip) (PSeq (PIf PSkip (PLoop (PIf PRaise PSkip))) (PSeq (PLoop (PSeq (PIf PRaise PSkip) (PIf PRaise PSkip))) (PSeq (PIf PRaise PSkip) (PSeq (PLoop (PIf PRaise PSkip)) PReturn)))))))).

(* call skeleton site_prog_gcxs_getitem of sparse/numba_backend/_compressed/indexing.py:getitem skelhash=98a5f06d04742631 *)
Definition site_prog_gcxs_getitem : prog :=
(PSeq (PIf (PSeq (PKer "tocoo"%string) (PSeq (PIf PReturn PSkip) (PSeq (PKer "from_coo"%string) PReturn))) PSkip) (PSeq (PVal "normalize_index"%string) (PSeq (PIf (PSeq (PKer "tocoo"%string) (PSeq (PKer "from_coo"%string) PReturn)) PSkip) (PSeq (PIf PReturn PSkip) (PSeq (PIf (PSeq (PKer "get_single_element"%string) PReturn) PSkip) (PSeq (PLoop (PIf PSkip (PIf PSkip (PIf PRaise PSkip)))) (PSeq (PKer "convert_to_flat"%string) (PSeq (PKer "convert_to_flat"%string) (PSeq (PIf (PKer "get_slicing_selection"%string) (PKer "get_array_selection"%string)) (PSeq (PIf (PKer "uncompress_dimension"%string) PSkip) (PSeq (PKer "GCXS"%string) PReturn))))))))))).

(* call skeleton site_prog_coo_init of sparse/numba_backend/_coo/core.py:COO.__init__ skelhash=002de240b7b83ee5 *)
Definition site_prog_coo_init : prog :=
(PSeq (PIf (PSeq (PIf PRaise PSkip) PReturn) PSkip) (PSeq (PIf (PSeq (PKer "as_coo"%string) PReturn) PSkip) (PSeq (PIf PRaise PSkip) (PSeq (PIf PRaise PSkip) (PSeq (PIf (PIf PRaise PSkip) PSkip) (PSeq (PIf (PSeq (PIf PRaise PSkip) (PIf PRaise PSkip)) PSkip) (PSeq (PIf (PKer "_sort_indices"%string) PSkip) (PSeq (PIf (PKer "_sum_duplicates"%string) PSkip) (PIf (PKer "_prune"%string) PSkip))))))))).

Definition site_programs : list (String.string * prog) :=
  [("site_prog_coo_transpose"%string, site_prog_coo_transpose);
   ("site_prog_coo_reshape"%string, site_prog_coo_reshape);
   ("site_prog_broadcast_to"%string, site_prog_broadcast_to);
   ("site_prog_tensordot"%string, site_prog_tensordot);
   ("site_prog_dot"%string, site_prog_dot);
   ("site_prog_coo_getitem"%string, site_prog_coo_getitem);
   ("site_prog_matmul"%string, site_prog_matmul);
   ("site_prog_parse_einsum"%string, site_prog_parse_einsum);
   ("site_prog_gcxs_getitem"%string, site_prog_gcxs_getitem);
   ("site_prog_coo_init"%string, site_prog_coo_init)].
