From Verif Require Import Py PyExt.

From Coq Require Import ZArith List.
Import ListNotations.
Open Scope Z_scope.

(* fragment g_dot from sparse/numba_backend/_common.py:dot selector=None srchash=314a5032a7372727 *)
Definition g_dot (a : pyv) (b : pyv) (a_ndim : pyv) (b_ndim : pyv) (a_len : pyv) (b_len : pyv) : res pyv :=
_ <- Ok VNone ;;
t1_ <- Ok (VBool false) ;;
if cond t1_ then (
Raise TypeError
) else (
t2_ <- (t4_ <- (t5_ <- Ok a_ndim ;; py_eq t5_ (VInt (0))) ;; if cond t4_ then Ok t4_ else (t3_ <- Ok b_ndim ;; py_eq t3_ (VInt (0)))) ;;
if cond t2_ then (
Ok (VTuple [VInt 3])
) else (
t6_ <- (t8_ <- (t9_ <- Ok a_ndim ;; py_eq t9_ (VInt (1))) ;; if cond t8_ then (t7_ <- Ok b_ndim ;; py_eq t7_ (VInt (1))) else Ok t8_) ;;
if cond t6_ then (
t10_ <- py_ne a_len b_len ;;
if cond t10_ then (
Raise ValueError
) else (
a <- (t11_ <- Ok (VBool true) ;; if cond t11_ then (
a <- Ok a ;;
Ok (a)
) else (
Ok (a)
)) ;;
b <- (t12_ <- Ok (VBool true) ;; if cond t12_ then (
b <- Ok b ;;
Ok (b)
) else (
Ok (b)
)) ;;
Ok (VTuple [VInt 0; a; b])
)
) else (
a_axis <- Ok (VInt (-1)) ;;
b_axis <- Ok (VInt (-2)) ;;
b_axis <- (t13_ <- (t14_ <- Ok b_ndim ;; py_eq t14_ (VInt (1))) ;; if cond t13_ then (
b_axis <- Ok (VInt (-1)) ;;
Ok (b_axis)
) else (
Ok (b_axis)
)) ;;
Ok (VTuple [VInt 1; a_axis; b_axis])
)
)
).

(* fragment g_tensordot_0d from sparse/numba_backend/_common.py:tensordot selector=('if', 'nda == 0 or ndb == 0') srchash=b5d1b3526546c14e *)
Definition g_tensordot_0d (a : pyv) (b : pyv) (nda : pyv) (ndb : pyv) (axes_a : pyv) (axes_b : pyv) : res pyv :=
t1_ <- (t2_ <- Ok (VBool (negb (truthy axes_a))) ;; if cond t2_ then Ok (VBool (negb (truthy axes_b))) else Ok t2_) ;;
if cond t1_ then (
a <- (t3_ <- (t4_ <- (py_eq nda (VInt (0))) ;; if cond t4_ then Ok (VBool true) else Ok t4_) ;; if cond t3_ then (
a <- Ok a ;;
Ok (a)
) else (
Ok (a)
)) ;;
b <- (t5_ <- (t6_ <- (py_eq ndb (VInt (0))) ;; if cond t6_ then Ok (VBool true) else Ok t6_) ;; if cond t5_ then (
b <- Ok b ;;
Ok (b)
) else (
Ok (b)
)) ;;
(py_mul a b)
) else (
pos <- (t7_ <- (py_ne nda (VInt (0))) ;; py_int t7_) ;;
Raise ValueError
).

(* fragment g_vecdot from sparse/numba_backend/_common.py:vecdot selector=None srchash=f38d5430727f729a *)
Definition g_vecdot (x1 : pyv) (x2 : pyv) (axis : pyv) (x1_ndim : pyv) (x2_ndim : pyv) (x1_ext : pyv) (x2_ext : pyv) : res pyv :=
ndmin <- py_min2 x1_ndim x2_ndim ;;
t1_ <- (t2_ <- (t5_ <- (t3_ <- (py_neg ndmin) ;; t4_ <- py_le t3_ axis ;; if cond t4_ then py_lt axis ndmin else Ok t4_) ;; py_not t5_) ;; if cond t2_ then Ok t2_ else py_ne x1_ext x2_ext) ;;
if cond t1_ then (
Raise ValueError
) else (
x1 <- Ok x1 ;;
x2 <- Ok x2 ;;
x1 <- (t6_ <- Ok (VBool false) ;; if cond t6_ then (
x1 <- Ok x1 ;;
Ok (x1)
) else (
Ok (x1)
)) ;;
Ok (VTuple [VInt 2; axis])
).
