From Verif Require Import Py PyExt.

From Coq Require Import ZArith List.
Import ListNotations.
Open Scope Z_scope.

(* fragment g_normalize_axis_int from sparse/numba_backend/_utils.py:normalize_axis selector=('if', 'isinstance(axis, Integral)') srchash=158e2dbdc3efdc43 *)
Definition g_normalize_axis_int (axis : pyv) (ndim : pyv) : res pyv :=
axis <- (py_int axis) ;;
axis <- (t1_ <- (py_lt axis (VInt (0))) ;; if cond t1_ then (
axis <- (py_add axis ndim) ;;
Ok (axis)
) else (
Ok (axis)
)) ;;
t2_ <- (t3_ <- (py_ge axis ndim) ;; if cond t3_ then Ok t3_ else (py_lt axis (VInt (0)))) ;;
if cond t2_ then (
Raise ValueError
) else (
Ok axis
).

(* fragment g_reshape_infer from sparse/numba_backend/_coo/core.py:COO.reshape selector=('if', 'any((d == -1 for d in shape))') srchash=1245462cb775f0fe *)
Definition g_reshape_infer (shape : pyv) (size : pyv) : res pyv :=
extra <- (t1_ <- (match shape, as_int size with
 | VTuple l_, Some a_ =>
   let b_ := (fold_right (fun v acc => match as_int v with Some d => if d =? -1 then acc else d * acc | None => acc end) 1 l_) in
   if b_ =? 0 then (if a_ =? 0 then Raise ValueError else Raise OverflowError)
   else if andb (Z.abs a_ <=? 2 ^ 53) (Z.abs b_ <=? 2 ^ 53) then Ok (VInt (Z.quot a_ b_))
   else (* D12_size_beyond_2^53: float64 arithmetic, by correspondence only *)
     let rne_ := (fun n : Z => if n <? 2 ^ 53 then n else let s := Z.log2 n - 52 in let m := n / 2 ^ s in let r := n mod 2 ^ s in let h := 2 ^ (s - 1) in let m' := if orb (h <? r) (andb (r =? h) (Z.odd m)) then m + 1 else m in m' * 2 ^ s) in
     let qt_ := (fun x y : Z => let e0 := Z.log2 x - Z.log2 y - 52 in let sig := fun e : Z => if 0 <=? e then x / (y * 2 ^ e) else (x * 2 ^ (- e)) / y in let e := if 2 ^ 52 <=? sig e0 then e0 else e0 - 1 in let num := if 0 <=? e then x else x * 2 ^ (- e) in let den := if 0 <=? e then y * 2 ^ e else y in let m := num / den in let r := num mod den in let m' := if orb (den <? 2 * r) (andb (2 * r =? den) (Z.odd m)) then m + 1 else m in if 0 <=? e then m' * 2 ^ e else m' / 2 ^ (- e)) in
     if a_ =? 0 then Ok (VInt 0) else
     Ok (VInt (Z.sgn a_ * Z.sgn b_ * qt_ (rne_ (Z.abs a_)) (rne_ (Z.abs b_))))
 | _, _ => Raise TypeError end) ;; py_int t1_) ;;
shape <- (match shape, as_int extra with
 | VTuple l_, Some e_ => Ok (VTuple (map (fun v => match as_int v with Some d => if d =? -1 then VInt e_ else v | None => v end) l_))
 | _, _ => Raise TypeError end) ;;
Ok (VTuple [shape]).

(* fragment g_reshape_size_mismatch from sparse/numba_backend/_coo/core.py:COO.reshape selector=('if', 'self.size != reduce(operator.mul, shape, 1)') srchash=62457ed2cc0cd515 *)
Definition g_reshape_size_mismatch (shape : pyv) (size : pyv) : res pyv :=
Raise ValueError.
