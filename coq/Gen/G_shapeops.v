From Verif Require Import Py PyExt.

From Coq Require Import ZArith List.
Import ListNotations.
Open Scope Z_scope.

(* fragment g_normalize_axis_int from sparse/numba_backend/_utils.py:normalize_axis selector=('if', 'isinstance(axis, Integral)') srchash=158e2dbdc3efdc43 *)
Definition g_normalize_axis_int (axis : pyv) (ndim : pyv) : res pyv :=
axis <- (py_int axis) ;;
axis <- (t1_ <- (py_lt axis (VInt (0))) ;; if cond t1_ then (
axis <- (py_add axis ndim) ;;
Ok (axis)
) else (
Ok (axis)
)) ;;
t2_ <- (t3_ <- (py_ge axis ndim) ;; if cond t3_ then Ok t3_ else (py_lt axis (VInt (0)))) ;;
if cond t2_ then (
Raise ValueError
) else (
Ok axis
).

(* fragment g_reshape_infer: TRANSLATION FAILED: attribute `self.size` *)

(* fragment g_reshape_size_mismatch from sparse/numba_backend/_coo/core.py:COO.reshape selector=('if', 'self.size != reduce(operator.mul, shape, 1)') srchash=62457ed2cc0cd515 *)
Definition g_reshape_size_mismatch (shape : pyv) (size : pyv) : res pyv :=
Raise ValueError.
