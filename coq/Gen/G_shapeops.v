From Verif Require Import Py PyExt.

From Coq Require Import ZArith List.
Import ListNotations.
Open Scope Z_scope.

(* fragment g_normalize_axis_int from sparse/numba_backend/_utils.py:normalize_axis selector=('if', 'isinstance(axis, Integral)') srchash=158e2dbdc3efdc43 *)
Definition g_normalize_axis_int (axis : pyv) (ndim : pyv) : res pyv :=
axis <- (py_int axis) ;;
axis <- (t1_ <- (py_lt axis (VInt (0))) ;; if cond t1_ then (
axis <- (py_add axis ndim) ;;
Ok (axis)
) else (
Ok (axis)
)) ;;
t2_ <- (t3_ <- (py_ge axis ndim) ;; if cond t3_ then Ok t3_ else (py_lt axis (VInt (0)))) ;;
if cond t2_ then (
Raise ValueError
) else (
Ok axis
).

(* fragment g_reshape_infer from sparse/numba_backend/_coo/core.py:COO.reshape selector=('if', 'any((d == -1 for d in shape))') srchash=82069656050b9242 *)
Definition g_reshape_infer (shape : pyv) (size : pyv) : res pyv :=
known <- (match shape with
 | VTuple l_ => Ok (VInt (fold_right (fun v acc => match as_int v with Some d => if d =? -1 then acc else d * acc | None => acc end) 1 l_))
 | _ => Raise TypeError end) ;;
t1_ <- (t5_ <- (t6_ <- (match shape with
 | VTuple l_ => Ok (VInt (Z.of_nat (length (filter (fun v => match as_int v with Some d => d =? -1 | None => false end) l_))))
 | _ => Raise TypeError end) ;; py_gt t6_ (VInt (1))) ;; if cond t5_ then Ok t5_ else (t4_ <- (py_eq known (VInt (0))) ;; if cond t4_ then Ok t4_ else (t3_ <- (t2_ <- Ok size ;; py_mod t2_ known) ;; py_ne t3_ (VInt (0))))) ;;
if cond t1_ then (
Raise ValueError
) else (
extra <- (t7_ <- Ok size ;; py_floordiv t7_ known) ;;
shape <- (match shape, as_int extra with
 | VTuple l_, Some e_ => Ok (VTuple (map (fun v => match as_int v with Some d => if d =? -1 then VInt e_ else v | None => v end) l_))
 | _, _ => Raise TypeError end) ;;
Ok (VTuple [shape])
).

(* fragment g_reshape_size_mismatch from sparse/numba_backend/_coo/core.py:COO.reshape selector=('if', 'self.size != reduce(operator.mul, shape, 1)') srchash=62457ed2cc0cd515 *)
Definition g_reshape_size_mismatch (shape : pyv) (size : pyv) : res pyv :=
Raise ValueError.

(* fragment g_gcxs_reshape_infer from sparse/numba_backend/_compressed/compressed.py:GCXS.reshape selector=('if', 'any((d == -1 for d in shape))') srchash=82069656050b9242 *)
Definition g_gcxs_reshape_infer (shape : pyv) (size : pyv) : res pyv :=
known <- (match shape with
 | VTuple l_ => Ok (VInt (fold_right (fun v acc => match as_int v with Some d => if d =? -1 then acc else d * acc | None => acc end) 1 l_))
 | _ => Raise TypeError end) ;;
t1_ <- (t5_ <- (t6_ <- (match shape with
 | VTuple l_ => Ok (VInt (Z.of_nat (length (filter (fun v => match as_int v with Some d => d =? -1 | None => false end) l_))))
 | _ => Raise TypeError end) ;; py_gt t6_ (VInt (1))) ;; if cond t5_ then Ok t5_ else (t4_ <- (py_eq known (VInt (0))) ;; if cond t4_ then Ok t4_ else (t3_ <- (t2_ <- Ok size ;; py_mod t2_ known) ;; py_ne t3_ (VInt (0))))) ;;
if cond t1_ then (
Raise ValueError
) else (
extra <- (t7_ <- Ok size ;; py_floordiv t7_ known) ;;
shape <- (match shape, as_int extra with
 | VTuple l_, Some e_ => Ok (VTuple (map (fun v => match as_int v with Some d => if d =? -1 then VInt e_ else v | None => v end) l_))
 | _, _ => Raise TypeError end) ;;
Ok (VTuple [shape])
).

(* fragment g_gcxs_reshape_size_mismatch from sparse/numba_backend/_compressed/compressed.py:GCXS.reshape selector=('if', 'self.size != reduce(operator.mul, shape, 1)') srchash=62457ed2cc0cd515 *)
Definition g_gcxs_reshape_size_mismatch (shape : pyv) (size : pyv) : res pyv :=
Raise ValueError.
