From Verif Require Import Py PyExt PyIndex.

From Coq Require Import ZArith List.
Import ListNotations.
Open Scope Z_scope.

(* fragment g_replace_ellipsis from sparse/numba_backend/_slicing.py:replace_ellipsis selector=None srchash=edb24d4d21073ff6 *)
Definition g_replace_ellipsis (n : pyv) (index : pyv) : res pyv :=
isellipsis <- ext_ellipsis_positions index ;;
t1_ <- (py_not isellipsis) ;;
if cond t1_ then (
Ok index
) else (
t2_ <- (t3_ <- (py_len isellipsis) ;; py_gt t3_ (VInt (1))) ;;
if cond t2_ then (
Raise IndexError
) else (
loc <- (py_item isellipsis 0%nat) ;;
extra_dimensions <- (t7_ <- (t6_ <- (t4_ <- (py_len index) ;; t5_ <- ext_count_none index ;; py_sub t4_ t5_) ;; py_sub t6_ (VInt (1))) ;; py_sub n t7_) ;;
ext_splice_full index loc extra_dimensions
)
).

(* fragment g_sanitize_index_element from sparse/numba_backend/_slicing.py:_sanitize_index_element selector=None srchash=de446288c97bf830 *)
Definition g_sanitize_index_element (ind : pyv) : res pyv :=
t1_ <- (py_is_none ind) ;;
if cond t1_ then (
Ok VNone
) else (
(py_int ind)
).

(* picked:     return (elem - idx_0) % idx_2 == 0 and (idx_2 > 0 and idx_0 <= elem < idx_1 or (idx_2 < 0 and idx_0 >= elem > idx_1)) *)
(* fragment s_filter_match from sparse/numba_backend/_coo/indexing.py:_filter_pairs selector=None srchash=0d72fb8e649ea8b0 *)
Definition s_filter_match (idx_0 : pyv) (idx_1 : pyv) (idx_2 : pyv) (elem : pyv) : res pyv :=
(t6_ <- (t8_ <- (t7_ <- (py_sub elem idx_0) ;; py_mod t7_ idx_2) ;; py_eq t8_ (VInt (0))) ;; if cond t6_ then (t3_ <- (t5_ <- (py_gt idx_2 (VInt (0))) ;; if cond t5_ then (t4_ <- py_le idx_0 elem ;; if cond t4_ then py_lt elem idx_1 else Ok t4_) else Ok t5_) ;; if cond t3_ then Ok t3_ else (t2_ <- (py_lt idx_2 (VInt (0))) ;; if cond t2_ then (t1_ <- py_ge idx_0 elem ;; if cond t1_ then py_gt elem idx_1 else Ok t1_) else Ok t2_)) else Ok t6_).

(* picked:     return (x.coords[i, mask].astype(np.intp) - ind.start) // ind.step *)
(* fragment s_coord_map from sparse/numba_backend/_coo/indexing.py:getitem selector=None srchash=9111ef9ac45b0234 *)
Definition s_coord_map (c : pyv) (ind : pyv) : res pyv :=
(t3_ <- (t1_ <- Ok c ;; t2_ <- (attr_start ind) ;; py_sub t1_ t2_) ;; t4_ <- (attr_step ind) ;; py_floordiv t3_ t4_).

(* picked:     return len(range(ind.start, ind.stop, ind.step)) *)
(* fragment s_slice_len from sparse/numba_backend/_coo/indexing.py:getitem selector=None srchash=8f611ec1943525cb *)
Definition s_slice_len (ind : pyv) : res pyv :=
ext_slice_len ind.

(* picked:     return adv_idx is None or adv_idx.pos == 0 *)
(* fragment s_sorted_init from sparse/numba_backend/_coo/indexing.py:getitem selector=None srchash=87a4a6491eab7b44 *)
Definition s_sorted_init (adv_idx : pyv) (adv_pos : pyv) : res pyv :=
(t2_ <- (py_is_none adv_idx) ;; if cond t2_ then Ok t2_ else (t1_ <- Ok adv_pos ;; py_eq t1_ (VInt (0)))).

(* picked:     if ind.step < 0: |         sorted = False |     return sorted *)
(* fragment s_sorted_step from sparse/numba_backend/_coo/indexing.py:getitem selector=None srchash=56c4f5451168088f *)
Definition s_sorted_step (sorted : pyv) (ind : pyv) : res pyv :=
sorted <- (t1_ <- (t2_ <- (attr_step ind) ;; py_lt t2_ (VInt (0))) ;; if cond t1_ then (
sorted <- Ok (VBool false) ;;
Ok (sorted)
) else (
Ok (sorted)
)) ;;
Ok sorted.

(* picked:     return idx.start == 0 and idx.stop == sh and (idx.step == 1) *)
(* fragment s_prune_full_fwd from sparse/numba_backend/_coo/indexing.py:_prune_indices selector=None srchash=d19616e8b9851827 *)
Definition s_prune_full_fwd (idx : pyv) (sh : pyv) : res pyv :=
(t4_ <- (t5_ <- (attr_start idx) ;; py_eq t5_ (VInt (0))) ;; if cond t4_ then (t2_ <- (t3_ <- (attr_stop idx) ;; py_eq t3_ sh) ;; if cond t2_ then (t1_ <- (attr_step idx) ;; py_eq t1_ (VInt (1))) else Ok t2_) else Ok t4_).

(* picked:     return idx.start == sh - 1 and idx.stop == -1 and (idx.step == -1) *)
(* fragment s_prune_full_rev from sparse/numba_backend/_coo/indexing.py:_prune_indices selector=None srchash=56de75d801667240 *)
Definition s_prune_full_rev (idx : pyv) (sh : pyv) : res pyv :=
(t4_ <- (t5_ <- (attr_start idx) ;; t6_ <- (py_sub sh (VInt (1))) ;; py_eq t5_ t6_) ;; if cond t4_ then (t2_ <- (t3_ <- (attr_stop idx) ;; py_eq t3_ (VInt (-1))) ;; if cond t2_ then (t1_ <- (attr_step idx) ;; py_eq t1_ (VInt (-1))) else Ok t2_) else Ok t4_).

(* picked:     if hasattr(i, 'ndim') and i.ndim >= 1: |         n_sliced_dims += i.ndim |     elif i is None: |         pass |     else: |         n_sliced_dims += 1 |     return n_sliced_dims *)
(* fragment s_count_sliced from sparse/numba_backend/_slicing.py:normalize_index selector=None srchash=2e48443f500f69d7 *)
Definition s_count_sliced (n_sliced_dims : pyv) (i : pyv) : res pyv :=
n_sliced_dims <- (t1_ <- ext_is_ndarray i ;; if cond t1_ then (
n_sliced_dims <- (t2_ <- ext_ndim i ;; py_add n_sliced_dims t2_) ;;
Ok (n_sliced_dims)
) else (
n_sliced_dims <- (t3_ <- (py_is_none i) ;; if cond t3_ then (
Ok (n_sliced_dims)
) else (
n_sliced_dims <- (py_add n_sliced_dims (VInt (1))) ;;
Ok (n_sliced_dims)
)) ;;
Ok (n_sliced_dims)
)) ;;
Ok n_sliced_dims.

(* picked:     return len(shape) - n_sliced_dims *)
(* fragment s_pad_count from sparse/numba_backend/_slicing.py:normalize_index selector=None srchash=bd5eaf4e1ee54d15 *)
Definition s_pad_count (shape : pyv) (n_sliced_dims : pyv) : res pyv :=
(t1_ <- (py_len shape) ;; py_sub t1_ n_sliced_dims).

(* picked:     return len([i for i in idx if i is not None]) > len(shape) *)
(* fragment s_too_many from sparse/numba_backend/_slicing.py:normalize_index selector=None srchash=2d97737d9939225b *)
Definition s_too_many (idx : pyv) (shape : pyv) : res pyv :=
(t2_ <- (t1_ <- ext_not_none idx ;; py_len t1_) ;; t3_ <- (py_len shape) ;; py_gt t2_ t3_).
