From Verif Require Import Py PyExt.

From Coq Require Import ZArith List.
Import ListNotations.
Open Scope Z_scope.

(* fragment g_get_broadcast_shape from sparse/numba_backend/_umath.py:_get_broadcast_shape selector=None srchash=6a86b63404ad3ae4 *)
Definition g_get_broadcast_shape (shape1 : pyv) (shape2 : pyv) (is_result : pyv) (all_ok : pyv) (zipped : pyv) : res pyv :=
t1_ <- (t3_ <- (t6_ <- Ok is_result ;; if cond t6_ then (t4_ <- (py_len shape1) ;; t5_ <- (py_len shape2) ;; py_gt t4_ t5_) else Ok t6_) ;; if cond t3_ then Ok t3_ else (t2_ <- Ok all_ok ;; py_not t2_)) ;;
if cond t1_ then (
Raise ValueError
) else (
Ok zipped
).
