From Verif Require Import Py PyExt.

From Coq Require Import ZArith List.
Import ListNotations.
Open Scope Z_scope.

(* fragment g_get_broadcast_shape from sparse/numba_backend/_umath.py:_get_broadcast_shape selector=None srchash=b7f88e421e0b0c8b *)
Definition g_get_broadcast_shape (shape1 : pyv) (shape2 : pyv) (is_result : pyv) (all_ok : pyv) (zipped : pyv) : res pyv :=
t1_ <- (t2_ <- Ok all_ok ;; py_not t2_) ;;
if cond t1_ then (
Raise ValueError
) else (
Ok zipped
).
