From Verif Require Import Py PyExt.

From Coq Require Import ZArith List.
Import ListNotations.
Open Scope Z_scope.

(* fragment g_dok_bounds_pos from sparse/numba_backend/_dok.py:DOK._setitem selector=('if', 'step > 0') srchash=9a02930adc05ad20 *)
Definition g_dok_bounds_pos (ind : pyv) (dim : pyv) : res pyv :=
start <- (t8_ <- (t7_ <- (attr_start ind) ;; py_is_not_none t7_) ;; if cond t8_ then (attr_start ind) else Ok (VInt (0))) ;;
start <- (t6_ <- py_max2 start (VInt (0)) ;; Ok t6_) ;;
stop <- (t5_ <- (t4_ <- (attr_stop ind) ;; py_is_not_none t4_) ;; if cond t5_ then (attr_stop ind) else Ok dim) ;;
stop <- (t2_ <- Ok dim ;; t3_ <- py_min2 stop t2_ ;; Ok t3_) ;;
start <- (t1_ <- (py_gt start stop) ;; if cond t1_ then (
start <- Ok stop ;;
Ok (start)
) else (
Ok (start)
)) ;;
Ok (VTuple [start; stop]).

(* fragment g_dok_bounds_neg from sparse/numba_backend/_dok.py:DOK._setitem selector=('else', 'step > 0') srchash=58040d1c614ad677 *)
Definition g_dok_bounds_neg (ind : pyv) (dim : pyv) : res pyv :=
start <- (t9_ <- (t8_ <- (attr_start ind) ;; py_is_not_none t8_) ;; if cond t9_ then (attr_start ind) else (t10_ <- Ok dim ;; py_sub t10_ (VInt (1)))) ;;
stop <- (t7_ <- (t6_ <- (attr_stop ind) ;; py_is_not_none t6_) ;; if cond t7_ then (attr_stop ind) else Ok (VInt (-1))) ;;
start <- (t4_ <- (t3_ <- Ok dim ;; py_sub t3_ (VInt (1))) ;; t5_ <- py_min2 start t4_ ;; Ok t5_) ;;
stop <- (t2_ <- py_max2 stop (VInt (-1)) ;; Ok t2_) ;;
start <- (t1_ <- (py_lt start stop) ;; if cond t1_ then (
start <- Ok stop ;;
Ok (start)
) else (
Ok (start)
)) ;;
Ok (VTuple [start; stop]).
