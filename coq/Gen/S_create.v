From Verif Require Import Py PyExt PyCreate.

From Coq Require Import ZArith List.
Import ListNotations.
Open Scope Z_scope.

(* fragment s_eye_arith from sparse/numba_backend/_common.py:eye selector=None srchash=21119898b1af1a97 *)
Definition s_eye_arith (N : pyv) (M : pyv) (k : pyv) : res pyv :=
M <- (t1_ <- (py_is_none M) ;; if cond t1_ then (
M <- Ok N ;;
Ok (M)
) else (
Ok (M)
)) ;;
N <- (py_int N) ;;
M <- (py_int M) ;;
k <- (py_int k) ;;
data_length <- (t15_ <- py_min2 N M ;; Ok t15_) ;;
data_length <- (t2_ <- (py_gt k (VInt (0))) ;; if cond t2_ then (
data_length <- (t5_ <- (t3_ <- (py_sub M k) ;; t4_ <- py_min2 data_length t3_ ;; Ok t4_) ;; t6_ <- py_max2 t5_ (VInt (0)) ;; Ok t6_) ;;
Ok (data_length)
) else (
data_length <- (t7_ <- (py_lt k (VInt (0))) ;; if cond t7_ then (
data_length <- (t10_ <- (t8_ <- (py_add N k) ;; t9_ <- py_min2 data_length t8_ ;; Ok t9_) ;; t11_ <- py_max2 t10_ (VInt (0)) ;; Ok t11_) ;;
Ok (data_length)
) else (
Ok (data_length)
)) ;;
Ok (data_length)
)) ;;
t12_ <- (py_eq data_length (VInt (0))) ;;
if cond t12_ then (
Ok (VTuple [N; M])
) else (
'(n_coords, m_coords) <- (t13_ <- (py_gt k (VInt (0))) ;; if cond t13_ then (
n_coords <- Ok (VInt 0) ;;
m_coords <- (py_add n_coords k) ;;
Ok (n_coords, m_coords)
) else (
'(m_coords, n_coords) <- (t14_ <- (py_lt k (VInt (0))) ;; if cond t14_ then (
m_coords <- Ok (VInt 0) ;;
n_coords <- (py_sub m_coords k) ;;
Ok (m_coords, n_coords)
) else (
n_coords <- Ok (VInt 0) ;;
m_coords <- Ok n_coords ;;
Ok (m_coords, n_coords)
)) ;;
Ok (n_coords, m_coords)
)) ;;
Ok (VTuple [N; M; data_length; n_coords; m_coords])
).

(* fragment s_random_plan from sparse/numba_backend/_utils.py:random selector=None srchash=bab30f00e7fb6ad8 *)
Definition s_random_plan (density : pyv) (nnz : pyv) (elements : pyv) (prod : pyv) (random_state : pyv) (nnztemp : pyv) : res pyv :=
t1_ <- (t2_ <- (py_is_not_none density) ;; if cond t2_ then (py_is_not_none nnz) else Ok t2_) ;;
if cond t1_ then (
Raise ValueError
) else (
density <- (t3_ <- (py_is_none density) ;; if cond t3_ then (
density <- Ok (VInt 0) ;;
Ok (density)
) else (
Ok (density)
)) ;;
t4_ <- (t6_ <- (t5_ <- py_le (VInt (0)) density ;; if cond t5_ then py_le density (VInt (1)) else Ok t5_) ;; py_not t6_) ;;
if cond t4_ then (
Raise ValueError
) else (
elements <- Ok elements ;;
nnz <- (t7_ <- (py_is_none nnz) ;; if cond t7_ then (
nnz <- Ok prod ;;
Ok (nnz)
) else (
Ok (nnz)
)) ;;
t8_ <- (t10_ <- (t9_ <- py_le (VInt (0)) nnz ;; if cond t9_ then py_le nnz elements else Ok t9_) ;; py_not t10_) ;;
if cond t8_ then (
Raise ValueError
) else (
'(ind, nnztemp) <- (t11_ <- (t12_ <- (py_eq nnz elements) ;; if cond t12_ then Ok t12_ else (py_ge density (VInt (1)))) ;; if cond t11_ then (
ind <- (plan_arange elements) ;;
Ok (ind, nnztemp)
) else (
'(ind, nnztemp) <- (t13_ <- (py_lt nnz (VInt (2))) ;; if cond t13_ then (
ind <- (plan_choice elements nnz) ;;
Ok (ind, nnztemp)
) else (
'(ind, nnztemp) <- (t14_ <- (t15_ <- (py_sub elements nnz) ;; py_lt t15_ (VInt (2))) ;; if cond t14_ then (
ind <- (t17_ <- (t16_ <- (py_sub elements nnz) ;; plan_choice elements t16_) ;; plan_reverse t17_ elements) ;;
Ok (ind, nnztemp)
) else (
'(nnztemp, ind) <- (t18_ <- py_gt_half nnz elements ;; if cond t18_ then (
nnztemp <- (py_sub elements nnz) ;;
ind <- (t19_ <- (t20_ <- (py_mul (VInt (10)) nnztemp) ;; py_gt elements t20_) ;; if cond t19_ then (
ind <- (t21_ <- (plan_algD nnztemp elements random_state) ;; plan_reverse t21_ elements) ;;
Ok (ind)
) else (
ind <- (t22_ <- (plan_algA nnztemp elements random_state) ;; plan_reverse t22_ elements) ;;
Ok (ind)
)) ;;
Ok (nnztemp, ind)
) else (
ind <- (t24_ <- (t23_ <- (py_mul (VInt (10)) nnz) ;; py_gt elements t23_) ;; if cond t24_ then (plan_algD nnz elements random_state) else (plan_algA nnz elements random_state)) ;;
Ok (nnztemp, ind)
)) ;;
Ok (ind, nnztemp)
)) ;;
Ok (ind, nnztemp)
)) ;;
Ok (ind, nnztemp)
)) ;;
Ok (VTuple [nnz; ind])
)
)
).
