From Verif Require Import Py PyExt.

From Coq Require Import ZArith List.
Import ListNotations.
Open Scope Z_scope.

(* fragment g_replace_none from sparse/numba_backend/_slicing.py:replace_none selector=None srchash=137bf9fde81d655b *)
Definition g_replace_none (idx : pyv) (dim : pyv) : res pyv :=
t1_ <- (py_not (VBool (isinst_slice idx))) ;;
if cond t1_ then (
Ok idx
) else (
t2_ <- (attr_start idx) ;; t3_ <- (attr_stop idx) ;; t4_ <- (attr_step idx) ;; start <- Ok t2_ ;; stop <- Ok t3_ ;; step <- Ok t4_ ;; 
step <- (t5_ <- (py_is_none step) ;; if cond t5_ then (
step <- Ok (VInt (1)) ;;
Ok (step)
) else (
Ok (step)
)) ;;
'(start, stop) <- (t6_ <- (py_gt step (VInt (0))) ;; if cond t6_ then (
start <- (t7_ <- (py_is_none start) ;; if cond t7_ then (
start <- Ok (VInt (0)) ;;
Ok (start)
) else (
Ok (start)
)) ;;
stop <- (t8_ <- (py_is_none stop) ;; if cond t8_ then (
stop <- Ok dim ;;
Ok (stop)
) else (
Ok (stop)
)) ;;
Ok (start, stop)
) else (
start <- (t9_ <- (py_is_none start) ;; if cond t9_ then (
start <- (py_sub dim (VInt (1))) ;;
Ok (start)
) else (
Ok (start)
)) ;;
stop <- (t10_ <- (py_is_none stop) ;; if cond t10_ then (
stop <- (t11_ <- (py_neg dim) ;; py_sub t11_ (VInt (1))) ;;
Ok (stop)
) else (
Ok (stop)
)) ;;
Ok (start, stop)
)) ;;
Ok (VSlice start stop step)
).

(* fragment g_posify_index from sparse/numba_backend/_slicing.py:posify_index selector=None srchash=912feb1b77e3a718 *)
Definition g_posify_index (shape : pyv) (ind : pyv) : res pyv :=
t1_ <- Ok (VBool (isinst_tuple ind)) ;;
if cond t1_ then (
Raise NotImplementedError
) else (
t2_ <- Ok (VBool (isinst_integral ind)) ;;
if cond t2_ then (
t3_ <- (t5_ <- (py_lt ind (VInt (0))) ;; if cond t5_ then (t4_ <- (py_isnan shape) ;; py_not t4_) else Ok t5_) ;;
if cond t3_ then (
(py_add ind shape)
) else (
Ok ind
)
) else (
t6_ <- (t8_ <- Ok (VBool (isinst_array ind)) ;; if cond t8_ then (t7_ <- (py_isnan shape) ;; py_not t7_) else Ok t8_) ;;
if cond t6_ then (
ind <- Ok ind ;;
ind <- (t9_ <- Ok (VBool (isinst_array ind)) ;; if cond t9_ then (
ind <- Ok ind ;;
Ok (ind)
) else (
Ok (ind)
)) ;;
ext_where_neg ind shape
) else (
t10_ <- Ok (VBool (isinst_slice ind)) ;;
if cond t10_ then (
t11_ <- (attr_start ind) ;; t12_ <- (attr_stop ind) ;; t13_ <- (attr_step ind) ;; start <- Ok t11_ ;; stop <- Ok t12_ ;; step <- Ok t13_ ;; 
start <- (t14_ <- (py_lt start (VInt (0))) ;; if cond t14_ then (
start <- (py_add start shape) ;;
Ok (start)
) else (
Ok (start)
)) ;;
stop <- (t15_ <- (py_lt stop (VInt (0))) ;; if cond t15_ then (
stop <- (py_add stop shape) ;;
Ok (stop)
) else (
Ok (stop)
)) ;;
(t16_ <- (attr_step ind) ;; Ok (VSlice start stop t16_))
) else (
Ok ind
)
)
)
).

(* fragment g_clip_slice from sparse/numba_backend/_slicing.py:clip_slice selector=None srchash=1d9c140683ebd958 *)
Definition g_clip_slice (idx : pyv) (dim : pyv) : res pyv :=
t1_ <- (py_not (VBool (isinst_slice idx))) ;;
if cond t1_ then (
Ok idx
) else (
t2_ <- (attr_start idx) ;; t3_ <- (attr_stop idx) ;; t4_ <- (attr_step idx) ;; start <- Ok t2_ ;; stop <- Ok t3_ ;; step <- Ok t4_ ;; 
'(start, stop) <- (t5_ <- (py_gt step (VInt (0))) ;; if cond t5_ then (
start <- (t8_ <- py_max2 start (VInt (0)) ;; Ok t8_) ;;
stop <- (t7_ <- py_min2 stop dim ;; Ok t7_) ;;
start <- (t6_ <- (py_gt start stop) ;; if cond t6_ then (
start <- Ok stop ;;
Ok (start)
) else (
Ok (start)
)) ;;
Ok (start, stop)
) else (
start <- (t11_ <- (py_sub dim (VInt (1))) ;; t12_ <- py_min2 start t11_ ;; Ok t12_) ;;
stop <- (t10_ <- py_max2 stop (VInt (-1)) ;; Ok t10_) ;;
start <- (t9_ <- (py_lt start stop) ;; if cond t9_ then (
start <- Ok stop ;;
Ok (start)
) else (
Ok (start)
)) ;;
Ok (start, stop)
)) ;;
Ok (VSlice start stop step)
).

(* fragment g_check_index from sparse/numba_backend/_slicing.py:check_index selector=None srchash=7a96b92a369f11b5 *)
Definition g_check_index (ind : pyv) (dimension : pyv) : res pyv :=
t1_ <- Ok (VBool (isinst_iterable ind)) ;;
if cond t1_ then (
x <- Ok ind ;;
t2_ <- ext_int_arr_oob x dimension ;;
if cond t2_ then (
Raise IndexError
) else (
t3_ <- ext_bool_arr_len_ne x dimension ;;
if cond t3_ then (
Raise IndexError
) else (
Ok VNone
)
)
) else (
t4_ <- Ok (VBool (isinst_slice ind)) ;;
if cond t4_ then (
Ok VNone
) else (
t5_ <- (py_not (VBool (isinst_integral ind))) ;;
if cond t5_ then (
Raise IndexError
) else (
t6_ <- (py_ge ind dimension) ;;
if cond t6_ then (
Raise IndexError
) else (
t7_ <- (t8_ <- (py_neg dimension) ;; py_lt ind t8_) ;;
if cond t7_ then (
Raise IndexError
) else (
Ok VNone
)
)
)
)
).
