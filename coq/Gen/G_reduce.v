From Verif Require Import Py PyExt.

From Coq Require Import ZArith List.
Import ListNotations.
Open Scope Z_scope.

(* fragment g_normalize_axis from sparse/numba_backend/_utils.py:normalize_axis selector=None srchash=c502cbb42403fd74 *)
Definition g_normalize_axis (axis : pyv) (ndim : pyv) : res pyv :=
t1_ <- (py_is_none axis) ;;
if cond t1_ then (
Ok VNone
) else (
t2_ <- Ok (VBool (isinst_integral axis)) ;;
if cond t2_ then (
axis <- (py_int axis) ;;
axis <- (t3_ <- (py_lt axis (VInt (0))) ;; if cond t3_ then (
axis <- (py_add axis ndim) ;;
Ok (axis)
) else (
Ok (axis)
)) ;;
t4_ <- (t5_ <- (py_ge axis ndim) ;; if cond t5_ then Ok t5_ else (py_lt axis (VInt (0)))) ;;
if cond t4_ then (
Raise ValueError
) else (
Ok axis
)
) else (
t6_ <- Ok (VBool (isinst_iterable axis)) ;;
if cond t6_ then (
t7_ <- (t8_ <- Raise NotImplementedError ;; py_not t8_) ;;
if cond t7_ then (
Raise ValueError
) else (
Raise NotImplementedError
)
) else (
Raise ValueError
)
)
).
