From Verif Require Import Py PyExt.

From Coq Require Import ZArith List.
Import ListNotations.
Open Scope Z_scope.

(* fragment g_normalize_axis from sparse/numba_backend/_utils.py:normalize_axis selector=None srchash=c502cbb42403fd74 *)
Definition g_normalize_axis (axis : pyv) (ndim : pyv) : res pyv :=
t1_ <- (py_is_none axis) ;;
if cond t1_ then (
Ok VNone
) else (
t2_ <- Ok (VBool (isinst_integral axis)) ;;
if cond t2_ then (
axis <- (py_int axis) ;;
axis <- (t3_ <- (py_lt axis (VInt (0))) ;; if cond t3_ then (
axis <- (py_add axis ndim) ;;
Ok (axis)
) else (
Ok (axis)
)) ;;
t4_ <- (t5_ <- (py_ge axis ndim) ;; if cond t5_ then Ok t5_ else (py_lt axis (VInt (0)))) ;;
if cond t4_ then (
Raise ValueError
) else (
Ok axis
)
) else (
t6_ <- Ok (VBool (isinst_iterable axis)) ;;
if cond t6_ then (
t7_ <- (t8_ <- Raise NotImplementedError ;; py_not t8_) ;;
if cond t7_ then (
Raise ValueError
) else (
Raise NotImplementedError
)
) else (
Raise ValueError
)
)
).

(* fragment g_reduce_super from sparse/numba_backend/_sparse_array.py:SparseArray.reduce selector=('else', 'reduce_super_ufunc is None') srchash=d8ba5067a1fa7e68 *)
Definition g_reduce_super (method : pyv) (reduce_super_ufunc : pyv) (fill : pyv) (data : pyv) (counts : pyv) (n_cols : pyv) : res pyv :=
data <- (m_ <- py_sub n_cols counts ;; s_ <- (match reduce_super_ufunc, as_int fill, as_int m_ with | VInt 0, Some a_, Some b_ => Ok (VInt (a_ + b_)) | VInt 1, Some a_, Some b_ => Ok (VInt (a_ * b_)) | VInt 9, Some a_, Some b_ => if b_ <? 0 then Raise ValueError else Ok (VInt (a_ ^ b_)) | _, _, _ => Raise TypeError end) ;; (match method, as_int data, as_int s_ with | VInt 0, Some a_, Some b_ => Ok (VInt (a_ + b_)) | VInt 1, Some a_, Some b_ => Ok (VInt (a_ * b_)) | VInt 9, Some a_, Some b_ => if b_ <? 0 then Raise ValueError else Ok (VInt (a_ ^ b_)) | _, _, _ => Raise TypeError end)) ;;
result_fill_value <- (match reduce_super_ufunc, as_int fill, as_int n_cols with | VInt 0, Some a_, Some b_ => Ok (VInt (a_ + b_)) | VInt 1, Some a_, Some b_ => Ok (VInt (a_ * b_)) | VInt 9, Some a_, Some b_ => if b_ <? 0 then Raise ValueError else Ok (VInt (a_ ^ b_)) | _, _, _ => Raise TypeError end) ;;
Ok (VTuple [data; result_fill_value]).
