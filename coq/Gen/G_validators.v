From Verif Require Import Py PyExt.

From Coq Require Import ZArith List.
Import ListNotations.
Open Scope Z_scope.

(* fragment gv_normalize_axis_int from sparse/numba_backend/_utils.py:normalize_axis selector=('if', 'isinstance(axis, Integral)') srchash=158e2dbdc3efdc43 *)
Definition gv_normalize_axis_int (axis : pyv) (ndim : pyv) : res pyv :=
axis <- (py_int axis) ;;
axis <- (t1_ <- (py_lt axis (VInt (0))) ;; if cond t1_ then (
axis <- (py_add axis ndim) ;;
Ok (axis)
) else (
Ok (axis)
)) ;;
t2_ <- (t3_ <- (py_ge axis ndim) ;; if cond t3_ then Ok t3_ else (py_lt axis (VInt (0)))) ;;
if cond t2_ then (
Raise ValueError
) else (
Ok axis
).

(* fragment gv_coo_init_checks from sparse/numba_backend/_coo/core.py:COO.__init__ selector=('if', 'self.shape') srchash=9f29d43301e2a532 *)
Definition gv_coo_init_checks (ndata : pyv) (ncols : pyv) (nshape : pyv) (nrows : pyv) : res pyv :=
t1_ <- (t2_ <- Ok ndata ;; t3_ <- Ok ncols ;; py_ne t2_ t3_) ;;
if cond t1_ then (
Raise ValueError
) else (
t4_ <- (t5_ <- Ok nshape ;; t6_ <- Ok nrows ;; py_ne t5_ t6_) ;;
if cond t4_ then (
Raise ValueError
) else (
Ok VNone
)
).
