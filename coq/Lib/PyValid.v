(* Lib/PyValid.v — hand-written meanings of the non-scalar expressions inside the validation
   fragments of property C18 (tools/frags/validators.py:SITE, tools/sitegen/validators.py).  Each
   is keyed there by the exact source text of the expression it stands for.  A sequence of axes
   (tuple / list) is a VTuple of values.  No property content. *)
From Coq Require Import ZArith List Bool String.
From Verif Require Import Py.
Import ListNotations.
Open Scope Z_scope.

Fixpoint ints_of (l : list pyv) : option (list Z) :=
  match l with
  | [] => Some []
  | v :: r => match as_int v, ints_of r with Some z, Some t => Some (z :: t) | _, _ => None end
  end.

Fixpoint strictly_incr (l : list Z) : bool :=
  match l with
  | [] => true
  | a :: r => match r with [] => true | b :: _ => (a <? b) && strictly_incr r end
  end.

(* all(isinstance(a, Integral) for a in t) *)
Definition ext_all_integral (t : pyv) : res pyv :=
  match t with
  | VTuple l => Ok (VBool (forallb isinst_integral l))
  | _ => Raise TypeError
  end.

(* np.array_equal(sorted(set(t)), t) on a tuple of integers: true iff t is strictly increasing
   (sorted(set(t)) is the strictly increasing enumeration of t's entries).  The source checks that all
   entries are Integral BEFORE this test, so other tuples never reach it. *)
Definition ext_sorted_set_equal (t : pyv) : res pyv :=
  match t with
  | VTuple l =>
    match ints_of l with
    | Some zs => Ok (VBool (strictly_incr zs))
    | None => Raise TypeError
    end
  | _ => Raise TypeError
  end.

Definition zmin_list (l : list Z) : option Z :=
  match l with [] => None | a :: r => Some (fold_left Z.min r a) end.
Definition zmax_list (l : list Z) : option Z :=
  match l with [] => None | a :: r => Some (fold_left Z.max r a) end.

(* min(t) / max(t) on a sequence of ints: ValueError on the empty sequence, as the builtins do *)
Definition ext_min (t : pyv) : res pyv :=
  match t with
  | VTuple l => match ints_of l with
                | Some zs => match zmin_list zs with Some m => Ok (VInt m) | None => Raise ValueError end
                | None => Raise TypeError end
  | _ => Raise TypeError
  end.
Definition ext_max (t : pyv) : res pyv :=
  match t with
  | VTuple l => match ints_of l with
                | Some zs => match zmax_list zs with Some m => Ok (VInt m) | None => Raise ValueError end
                | None => Raise TypeError end
  | _ => Raise TypeError
  end.

Fixpoint zmem (x : Z) (l : list Z) : bool :=
  match l with [] => false | y :: r => (x =? y) || zmem x r end.
Fixpoint nodupb (l : list Z) : bool :=
  match l with [] => true | x :: r => negb (zmem x r) && nodupb r end.
Fixpoint distinct_count (l : list Z) : Z :=
  match l with [] => 0 | x :: r => (if zmem x r then 0 else 1) + distinct_count r end.

(* len(np.unique(axes)) on a sequence of ints *)
Definition ext_len_unique (t : pyv) : res pyv :=
  match t with
  | VTuple l => match ints_of l with Some zs => Ok (VInt (distinct_count zs)) | None => Raise TypeError end
  | _ => Raise TypeError
  end.

(* a.shape != b.shape on tuples of ints *)
Fixpoint zlist_eqb (a b : list Z) : bool :=
  match a, b with
  | [], [] => true
  | x :: a', y :: b' => (x =? y) && zlist_eqb a' b'
  | _, _ => false
  end.
Definition ext_shape_ne (a b : pyv) : res pyv :=
  match a, b with
  | VTuple la, VTuple lb =>
    match ints_of la, ints_of lb with
    | Some za, Some zb => Ok (VBool (negb (zlist_eqb za zb)))
    | _, _ => Raise TypeError end
  | _, _ => Raise TypeError
  end.

(* Call skeleton of a public function, extracted from the source by tools/sitegen/validators.py:
   which calls may REJECT the arguments (validators; `raise` statements), which calls touch or
   produce array data (kernels / constructors), and in which order they can execute.  Everything
   else (shape arithmetic, isinstance, tuple building ...) is dropped. *)
Inductive prog :=
| PSkip
| PSeq (a b : prog)
| PVal (name : string)        (* call of a validator: may raise *)
| PKer (name : string)        (* call of a kernel / constructor / conversion producing array data *)
| PRaise                      (* a `raise` statement *)
| PReturn
| PIf (a b : prog)            (* if / else (elif chains are nested) *)
| PLoop (b : prog).           (* for / while: the body any number of times *)

(* Float expressions that sitegen translates symbolically (tools/sitegen/validators.py: locator
   "float_test"): the operations the source applies, over an abstract carrier.  Model/Kernels.v
   instantiates it with exact rationals and an abstract logarithm. *)
Record fops := {
  ft : Type;
  f_of_Z : Z -> ft;
  f_mul : ft -> ft -> ft;
  f_div : ft -> ft -> ft;
  f_add : ft -> ft -> ft;
  f_max : ft -> ft -> ft;
  f_log : ft -> ft;
  f_gt : ft -> ft -> bool
}.

(* the validation steps of _common.moveaxis in SOURCE ORDER (tools/sitegen/validators.py: locator "moveaxis_steps") *)
Inductive mv_step := MvNormSrc | MvNormDst | MvRepeatDst | MvLen.
