(* Lib/PyCreate.v — hand-written meanings of the non-scalar expressions inside the sliced
   fragments of `_common.eye` and `_utils.random` (tools/frags/create.py, tools/sitegen/create.py).
   Each is keyed there by the exact source text (extern) or by the called name (the call's
   arguments are still translated from the source).  No property content.

   Conventions of the area:
   * an `np.arange(L) + c` coordinate row is represented by its first element c (VInt c): the
     generated arithmetic `n_coords + k`, `m_coords - k` then literally computes the start of the
     shifted row;
   * the float `density` is represented by its class  -1 (<0 or NaN) | 0 (in [0,1)) | 1 (= 1.0)
     | 2 (> 1), the coarsest abstraction under which the integer comparisons `0 <= density <= 1`
     and `density >= 1` of the source evaluate as the float comparisons do; the one other use,
     `int(elements * density)`, is a parameter of the fragment (computed by Model/Random.v's
     binary64 product);
   * the sampling calls build a symbolic plan (a tagged tuple) that Model/Random.v interprets. *)
From Coq Require Import ZArith List Bool.
From Verif Require Import Py.
Import ListNotations.
Open Scope Z_scope.

(* np.arange(elements) *)
Definition plan_arange (a : pyv) : res pyv := Ok (VTuple [VInt 0; a]).
(* random_state.choice(a, size) *)
Definition plan_choice (a k : pyv) : res pyv := Ok (VTuple [VInt 1; a; k]).
(* reverse(inv, N) *)
Definition plan_reverse (inv a : pyv) : res pyv := Ok (VTuple [VInt 2; inv; a]).
(* algD(n, N, random_state) *)
Definition plan_algD (n a rs : pyv) : res pyv := Ok (VTuple [VInt 3; n; a]).
(* algA(n, N, random_state) *)
Definition plan_algA (n a rs : pyv) : res pyv := Ok (VTuple [VInt 4; n; a]).

(* `nnz > elements / 2` : true division by two is exact in binary64 below 2^53 and Python compares
   int with float exactly, so this is 2 * nnz > elements *)
Definition py_gt_half (nnz elements : pyv) : res pyv :=
  t <- py_mul (VInt 2) nnz ;; py_gt t elements.
