(* Lib/Shape.v — shapes, index tuples, row-major linearisation.  Foundation of every
   den-theorem: ravel/unravel are inverse bijections between in-range index tuples and
   [0, size), and ravel is strictly monotone for the lexicographic order. *)
From Coq Require Import ZArith List Bool Lia.
Import ListNotations.
Open Scope Z_scope.

Definition shape := list Z.
Definition idx := list Z.

Definition size (sh : shape) : Z := fold_right Z.mul 1 sh.

Definition shape_ok (sh : shape) : Prop := Forall (fun d => 0 <= d) sh.

Fixpoint in_range (sh : shape) (ix : idx) : Prop :=
  match sh, ix with
  | [], [] => True
  | d :: sh', i :: ix' => 0 <= i < d /\ in_range sh' ix'
  | _, _ => False
  end.

Fixpoint in_rangeb (sh : shape) (ix : idx) : bool :=
  match sh, ix with
  | [], [] => true
  | d :: sh', i :: ix' => (0 <=? i) && (i <? d) && in_rangeb sh' ix'
  | _, _ => false
  end.

Fixpoint ravel (sh : shape) (ix : idx) : Z :=
  match sh, ix with
  | _ :: sh', i :: ix' => i * size sh' + ravel sh' ix'
  | _, _ => 0
  end.

Fixpoint unravel (sh : shape) (n : Z) : idx :=
  match sh with
  | [] => []
  | _ :: sh' => (n / size sh') :: unravel sh' (n mod size sh')
  end.

(* lexicographic order on index tuples *)
Fixpoint lex_lt (a b : idx) : Prop :=
  match a, b with
  | x :: a', y :: b' => x < y \/ (x = y /\ lex_lt a' b')
  | _, _ => False
  end.

Fixpoint lex_ltb (a b : idx) : bool :=
  match a, b with
  | x :: a', y :: b' => (x <? y) || ((x =? y) && lex_ltb a' b')
  | _, _ => false
  end.

Fixpoint idx_eqb (a b : idx) : bool :=
  match a, b with
  | [], [] => true
  | x :: a', y :: b' => (x =? y) && idx_eqb a' b'
  | _, _ => false
  end.

Definition zrange (n : Z) : list Z := map Z.of_nat (seq 0 (Z.to_nat n)).

(* all in-range index tuples in row-major order *)
Fixpoint all_indices (sh : shape) : list idx :=
  match sh with
  | [] => [[]]
  | d :: sh' => flat_map (fun i => map (cons i) (all_indices sh')) (zrange d)
  end.

(* ---------------------------------------------------------------- lemmas *)

Lemma in_rangeb_spec sh ix : in_rangeb sh ix = true <-> in_range sh ix.
Proof.
  revert ix; induction sh as [|d sh IH]; intros [|i ix]; simpl; try (split; [discriminate|tauto]); try tauto.
  rewrite !andb_true_iff, IH, Z.leb_le, Z.ltb_lt. tauto.
Qed.

Lemma idx_eqb_eq a b : idx_eqb a b = true <-> a = b.
Proof.
  revert b; induction a as [|x a IH]; intros [|y b]; simpl; try (split; [discriminate|congruence]); try tauto.
  rewrite andb_true_iff, IH, Z.eqb_eq. split; [intros [-> ->]; reflexivity|intros H; inversion H; auto].
Qed.

Lemma idx_eqb_refl a : idx_eqb a a = true.
Proof. apply idx_eqb_eq; reflexivity. Qed.

Lemma lex_ltb_spec a b : lex_ltb a b = true <-> lex_lt a b.
Proof.
  revert b; induction a as [|x a IH]; intros [|y b]; simpl; try (split; [discriminate|tauto]).
  rewrite orb_true_iff, andb_true_iff, IH, Z.ltb_lt, Z.eqb_eq. tauto.
Qed.

Lemma size_nonneg sh : shape_ok sh -> 0 <= size sh.
Proof. induction 1; simpl; [lia|]. apply Z.mul_nonneg_nonneg; assumption. Qed.

Lemma in_range_length sh ix : in_range sh ix -> length ix = length sh.
Proof. revert ix; induction sh; intros [|i ix]; simpl; try tauto. intros [_ H]. f_equal; auto. Qed.

Lemma in_range_size_pos sh ix : in_range sh ix -> 0 < size sh.
Proof.
  revert ix; induction sh as [|d sh IH]; intros [|i ix]; simpl; try tauto; [lia|].
  intros [Hi H]. specialize (IH _ H). apply Z.mul_pos_pos; lia.
Qed.

Lemma ravel_bounds sh ix : in_range sh ix -> 0 <= ravel sh ix < size sh.
Proof.
  revert ix; induction sh as [|d sh IH]; intros [|i ix]; simpl; try tauto; [lia|].
  intros [Hi H]. specialize (IH _ H). nia.
Qed.

Lemma unravel_ravel sh ix : in_range sh ix -> unravel sh (ravel sh ix) = ix.
Proof.
  revert ix; induction sh as [|d sh IH]; intros [|i ix]; simpl; try tauto.
  intros [Hi H]. pose proof (ravel_bounds _ _ H) as Hb.
  assert (Hq : (i * size sh + ravel sh ix) / size sh = i).
  { rewrite Z.add_comm, Z.div_add by lia. rewrite Z.div_small by lia. lia. }
  assert (Hm : (i * size sh + ravel sh ix) mod size sh = ravel sh ix).
  { rewrite Z.add_comm, Z.mod_add by lia. apply Z.mod_small; lia. }
  rewrite Hq, Hm, IH by assumption. reflexivity.
Qed.

Lemma unravel_in_range sh n : shape_ok sh -> 0 <= n < size sh -> in_range sh (unravel sh n).
Proof.
  revert n; induction sh as [|d sh IH]; intros n Hok Hn; simpl; [exact I|].
  inversion Hok as [|? ? Hd Hok']; subst. simpl in Hn.
  pose proof (size_nonneg _ Hok') as Hs.
  assert (0 < size sh) by nia.
  split.
  - split; [apply Z.div_pos; lia|]. apply Z.div_lt_upper_bound; lia.
  - apply IH; [assumption|]. apply Z.mod_pos_bound; lia.
Qed.

Lemma ravel_unravel sh n : shape_ok sh -> 0 <= n < size sh -> ravel sh (unravel sh n) = n.
Proof.
  revert n; induction sh as [|d sh IH]; intros n Hok Hn; simpl in *; [lia|].
  inversion Hok as [|? ? Hd Hok']; subst.
  pose proof (size_nonneg _ Hok') as Hs.
  assert (0 < size sh) by nia.
  rewrite IH; [|assumption|apply Z.mod_pos_bound; lia].
  pose proof (Z.div_mod n (size sh)). lia.
Qed.

Lemma ravel_lex sh a b : in_range sh a -> in_range sh b -> (lex_lt a b <-> ravel sh a < ravel sh b).
Proof.
  revert a b; induction sh as [|d sh IH]; intros [|x a] [|y b]; simpl; try tauto; [lia|].
  intros [Hx Ha] [Hy Hb].
  pose proof (ravel_bounds _ _ Ha). pose proof (ravel_bounds _ _ Hb).
  specialize (IH _ _ Ha Hb). split.
  - intros [Hlt|[-> Hl]]; [nia|]. apply IH in Hl. lia.
  - intros Hlt. destruct (Z.lt_trichotomy x y) as [?|[->|?]]; [left; assumption| |nia].
    right. split; [reflexivity|]. apply IH. lia.
Qed.

Lemma ravel_inj sh a b : in_range sh a -> in_range sh b -> ravel sh a = ravel sh b -> a = b.
Proof.
  intros Ha Hb He. rewrite <- (unravel_ravel _ _ Ha), <- (unravel_ravel _ _ Hb), He. reflexivity.
Qed.

Lemma lex_lt_irrefl a : ~ lex_lt a a.
Proof. induction a; simpl; [tauto|]. intros [?|[_ ?]]; [lia|auto]. Qed.

Lemma lex_lt_trans a b c : lex_lt a b -> lex_lt b c -> lex_lt a c.
Proof.
  revert b c; induction a as [|x a IH]; intros [|y b] [|z c]; simpl; try tauto.
  intros [?|[-> ?]] [?|[-> ?]]; try (left; lia). right; split; [reflexivity|]. eapply IH; eauto.
Qed.

Lemma zrange_In n i : In i (zrange n) <-> 0 <= i < n.
Proof.
  unfold zrange. rewrite in_map_iff. split.
  - intros [k [<- Hk]]. apply in_seq in Hk. lia.
  - intros H. exists (Z.to_nat i). split; [lia|]. apply in_seq. lia.
Qed.

Lemma all_indices_In sh ix : In ix (all_indices sh) <-> in_range sh ix.
Proof.
  revert ix; induction sh as [|d sh IH]; intros ix; simpl.
  - destruct ix; simpl; split; auto; try tauto. intros [H|[]]; discriminate.
  - rewrite in_flat_map. split.
    + intros [i [Hi H]]. apply in_map_iff in H. destruct H as [t [<- Ht]].
      simpl. split; [apply zrange_In; assumption|apply IH; assumption].
    + destruct ix as [|i t]; simpl; [tauto|]. intros [Hi Ht].
      exists i. split; [apply zrange_In; assumption|]. apply in_map. apply IH; assumption.
Qed.
