(* Lib/MachInt.v — fixed-width integer arithmetic as NumPy 2 performs it on index arrays.

   * an integer type is (bits, signed); [in_range_w w sgn z], [wrap w sgn z];
   * an array carries its dtype ([dty]): an integer type, "unbounded" ([DInf], the reference
     semantics: no overflow check, no wrap) or float64 ([DFloat], what NumPy promotes
     uint64 (+) int64 to; values stay exact in the range the checks use);
   * NumPy-2 promotion (NEP 50), exactly the rules the index code of /repo exercises:
       array (+) Python int   : stays in the array's type; OverflowError when the scalar is not
                                representable in it; the element-wise result wraps silently;
       array (+) array / NumPy scalar : both sides are converted to the common type [promote];
       in-place  a (+)= NumPy scalar  : computed in the common type, then cast back to a's type
                                under the `same_kind` rule (TypeError when that cast is refused);
       a[...] = b             : unsafe cast (wraps).
     These rules are validated against real NumPy on every run by tools/props/c15.py (stream
     "prim").  No property content. *)
From Coq Require Import ZArith List Bool Lia.
From Verif Require Import Py.
Import ListNotations.
Open Scope Z_scope.

Record ity := mkI { bits : Z; sg : bool }.

Definition ilo (t : ity) : Z := if sg t then - 2 ^ (bits t - 1) else 0.
Definition ihi (t : ity) : Z := if sg t then 2 ^ (bits t - 1) - 1 else 2 ^ bits t - 1.

Definition in_range_w (w : Z) (sgn : bool) (z : Z) : Prop :=
  ilo (mkI w sgn) <= z <= ihi (mkI w sgn).
Definition in_range_wb (w : Z) (sgn : bool) (z : Z) : bool :=
  (ilo (mkI w sgn) <=? z) && (z <=? ihi (mkI w sgn)).

(* two's-complement reduction into the type *)
Definition wrap (w : Z) (sgn : bool) (z : Z) : Z :=
  if sgn then (z + 2 ^ (w - 1)) mod 2 ^ w - 2 ^ (w - 1) else z mod 2 ^ w.

Definition i8 := mkI 8 true.    Definition u8 := mkI 8 false.
Definition i16 := mkI 16 true.  Definition u16 := mkI 16 false.
Definition i32 := mkI 32 true.  Definition u32 := mkI 32 false.
Definition i64 := mkI 64 true.  Definition u64 := mkI 64 false.

(* the eight index types of the property *)
Definition std (t : ity) : Prop := bits t = 8 \/ bits t = 16 \/ bits t = 32 \/ bits t = 64.
Definition stdb (t : ity) : bool :=
  (bits t =? 8) || (bits t =? 16) || (bits t =? 32) || (bits t =? 64).

Definition ity_eqb (a b : ity) : bool := (bits a =? bits b) && Bool.eqb (sg a) (sg b).

(* ---- dtypes of arrays *)
Inductive dty := DInf | DInt (t : ity) | DFloat.

Definition dty_eqb (a b : dty) : bool :=
  match a, b with
  | DInf, DInf | DFloat, DFloat => true
  | DInt x, DInt y => ity_eqb x y
  | _, _ => false
  end.

(* is the Python integer z representable in the dtype *)
Definition fits (d : dty) (z : Z) : bool :=
  match d with DInt t => in_range_wb (bits t) (sg t) z | _ => true end.
(* conversion of an integer value into the dtype (C cast) *)
Definition wr (d : dty) (z : Z) : Z :=
  match d with DInt t => wrap (bits t) (sg t) z | _ => z end.

Definition is_unsigned (d : dty) : bool :=
  match d with DInt t => negb (sg t) | _ => false end.

(* np.result_type of two integer dtypes *)
Definition promote_i (a b : ity) : dty :=
  if Bool.eqb (sg a) (sg b) then DInt (mkI (Z.max (bits a) (bits b)) (sg a))
  else
    let s := if sg a then a else b in
    let u := if sg a then b else a in
    if bits u <? bits s then DInt s
    else if bits u <? 64 then DInt (mkI (2 * bits u) true)
    else DFloat.

Definition promote (a b : dty) : dty :=
  match a, b with
  | DInf, _ | _, DInf => DInf
  | DFloat, _ | _, DFloat => DFloat
  | DInt x, DInt y => promote_i x y
  end.

(* np.can_cast(src, dst, 'same_kind') on the dtypes above (kinds ordered u < i < f) *)
Definition same_kind (src dst : dty) : bool :=
  match src, dst with
  | DInt s, DInt d => sg d || negb (sg s)
  | DFloat, DInt _ => false
  | _, _ => true
  end.

(* np.min_scalar_type of a Python integer (None: the `object` dtype, beyond 64 bits) *)
Definition min_scalar_type (z : Z) : option ity :=
  if 0 <=? z then
    if z <=? 255 then Some u8 else if z <=? 65535 then Some u16
    else if z <=? 4294967295 then Some u32 else if z <=? 18446744073709551615 then Some u64 else None
  else
    if -128 <=? z then Some i8 else if -32768 <=? z then Some i16
    else if -2147483648 <=? z then Some i32 else if -9223372036854775808 <=? z then Some i64 else None.

(* dtype NumPy gives a Python integer in np.full / np.array / np.asarray: int64 when it fits, uint64 for
   2^63 .. 2^64-1 (beyond: object, outside the model) *)
Definition np_int_type (z : Z) : ity :=
  if in_range_wb 64 true z then i64 else u64.

(* ---- typed 1-D integer arrays *)
Record tarr := mkT { tdt : dty; tv : list Z }.

Definition astype (d : dty) (a : tarr) : tarr := mkT d (map (wr d) (tv a)).

(* a <op> k,  k a Python int (weak scalar) *)
Definition arr_py (op : Z -> Z -> Z) (a : tarr) (k : Z) : res tarr :=
  if fits (tdt a) k then Ok (mkT (tdt a) (map (fun c => wr (tdt a) (op c k)) (tv a)))
  else Raise OverflowError.
(* k <op> a *)
Definition py_arr (op : Z -> Z -> Z) (k : Z) (a : tarr) : res tarr :=
  if fits (tdt a) k then Ok (mkT (tdt a) (map (fun c => wr (tdt a) (op k c)) (tv a)))
  else Raise OverflowError.
(* a <op> b element-wise, two arrays *)
Definition arr_arr (op : Z -> Z -> Z) (a b : tarr) : res tarr :=
  let d := promote (tdt a) (tdt b) in
  Ok (mkT d (map (fun p => wr d (op (fst p) (snd p))) (combine (tv a) (tv b)))).
(* a <op> k,  k a NumPy integer scalar / a broadcast element of an array of type kt *)
Definition arr_np (op : Z -> Z -> Z) (a : tarr) (kt : ity) (k : Z) : res tarr :=
  let d := promote (tdt a) (DInt kt) in
  Ok (mkT d (map (fun c => wr d (op c k)) (tv a))).
(* a <op>= k in place, k a Python int: same as arr_py (the result type is a's) *)
Definition iarr_py := arr_py.
(* a <op>= k in place, k a NumPy scalar of type kt *)
Definition iarr_np (op : Z -> Z -> Z) (a : tarr) (kt : ity) (k : Z) : res tarr :=
  let d := promote (tdt a) (DInt kt) in
  if same_kind d (tdt a) then Ok (mkT (tdt a) (map (fun c => wr (tdt a) (wr d (op c k))) (tv a)))
  else Raise TypeError.
(* dst[...] = src  into an array of dtype d *)
Definition assign_into (d : dty) (src : tarr) : tarr := astype d src.

(* element-wise comparison of two arrays (exact on integers) *)
Definition cmp_arr (f : Z -> Z -> bool) (a b : tarr) : list bool :=
  map (fun p => f (fst p) (snd p)) (combine (tv a) (tv b)).

(* ---- Numba (nopython) scalar arithmetic on elements of index arrays: integer operands are widened to at
   least the machine word, keeping signedness when both agree; signed with unsigned gives int64 (also for
   uint64: Numba does not follow NumPy's float64 there).  Validated against real Numba by the prim stream. *)
Definition nb_promote (a b : ity) : dty :=
  if Bool.eqb (sg a) (sg b) then DInt (mkI (Z.max (Z.max (bits a) (bits b)) 64) (sg a))
  else DInt i64.
Definition nb_promote_d (a : dty) (b : ity) : dty :=
  match a with DInt x => nb_promote x b | DInf => DInf | DFloat => DFloat end.
(* a[i] <op> k for every i, k a Numba integer of type kt *)
Definition nb_arr_sc (op : Z -> Z -> Z) (a : tarr) (kt : ity) (k : Z) : tarr :=
  let d := nb_promote_d (tdt a) kt in mkT d (map (fun c => wr d (op c k)) (tv a)).
(* a[i] <op> b[i] *)
Definition nb_arr_arr (op : Z -> Z -> Z) (a b : tarr) : tarr :=
  let d := match tdt a, tdt b with
           | DInt x, DInt y => nb_promote x y
           | DInf, _ | _, DInf => DInf
           | _, _ => DFloat end in
  mkT d (map (fun p => wr d (op (fst p) (snd p))) (combine (tv a) (tv b))).
Definition cmp_arr_sc (f : Z -> Z -> bool) (a : tarr) (k : Z) : list bool := map (fun c => f c k) (tv a).

(* np.arange(n) as a list *)
Definition zrange_ (n : Z) : list Z := map Z.of_nat (seq 0 (Z.to_nat n)).

(* np.diff(a): consecutive differences, computed in a's own dtype (wraps for unsigned types) *)
Definition np_diff (a : tarr) : list Z :=
  map (fun p => wr (tdt a) (snd p - fst p)) (combine (tv a) (tl (tv a))).

(* NumPy's integer remainder / floor division: Python semantics, 0 for a zero divisor *)
Definition np_mod (x y : Z) : Z := if y =? 0 then 0 else x mod y.
Definition np_div (x y : Z) : Z := if y =? 0 then 0 else x / y.

Definition rmap {A B} (f : A -> B) (r : res A) : res B :=
  match r with Ok a => Ok (f a) | Raise e => Raise e end.

(* ---- dtypes as values of the translated fragments (Lib/Py.v [pyv]):
        (bits, signed) ; bits = 0 unbounded ; bits = -1 float64 *)
Definition dty_pyv (d : dty) : pyv :=
  match d with
  | DInf => VTuple [VInt 0; VBool true]
  | DInt t => VTuple [VInt (bits t); VBool (sg t)]
  | DFloat => VTuple [VInt (-1); VBool true]
  end.
Definition pyv_dty (v : pyv) : option dty :=
  match v with
  | VTuple [VInt b; VBool s] =>
      if b =? 0 then Some DInf else if b =? -1 then Some DFloat else Some (DInt (mkI b s))
  | _ => None
  end.

(* extern terms of tools/frags/idxwidth.py *)
(* can_store(dtype, scalar) — `np.array(scalar, dtype=dtype) == np.array(scalar)` with
   ValueError/OverflowError mapped to False: the scalar is representable *)
Definition ext_can_store (d s : pyv) : res pyv :=
  match pyv_dty d, as_int s with
  | Some dt, Some z => Ok (VBool (fits dt z))
  | _, _ => Raise TypeError
  end.
(* np.min_scalar_type(scalar) *)
Definition ext_min_scalar_type (s : pyv) : res pyv :=
  match as_int s with
  | Some z => match min_scalar_type z with
              | Some t => Ok (dty_pyv (DInt t))
              | None => Raise OtherError          (* object dtype: outside the model *)
              end
  | None => Raise TypeError
  end.

(* ---- basic facts *)
Lemma pow2_pos w : 0 <= w -> 0 < 2 ^ w.
Proof. intros. apply Z.pow_pos_nonneg; lia. Qed.

Lemma pow2_half w : 0 < w -> 2 ^ w = 2 * 2 ^ (w - 1).
Proof. intros. replace w with (Z.succ (w - 1)) at 1 by lia. rewrite Z.pow_succ_r; lia. Qed.

Lemma in_range_wb_spec w s z : in_range_wb w s z = true <-> in_range_w w s z.
Proof. unfold in_range_wb, in_range_w. rewrite andb_true_iff, !Z.leb_le. tauto. Qed.

Lemma wrap_id w s z : 0 < w -> in_range_w w s z -> wrap w s z = z.
Proof.
  intros Hw [Hl Hh]. unfold wrap, ilo, ihi in *; cbn in *.
  pose proof (pow2_pos (w - 1) ltac:(lia)). pose proof (pow2_half w Hw).
  destruct s.
  - rewrite Z.mod_small by lia. lia.
  - apply Z.mod_small. lia.
Qed.

Lemma wrap_range w s z : 0 < w -> in_range_w w s (wrap w s z).
Proof.
  intros Hw. unfold in_range_w, wrap, ilo, ihi; cbn.
  pose proof (pow2_pos (w - 1) ltac:(lia)). pose proof (pow2_half w Hw).
  destruct s.
  - pose proof (Z.mod_pos_bound (z + 2 ^ (w - 1)) (2 ^ w) ltac:(lia)). lia.
  - pose proof (Z.mod_pos_bound z (2 ^ w) ltac:(lia)). lia.
Qed.

Lemma fits_spec t z : fits (DInt t) z = true <-> in_range_w (bits t) (sg t) z.
Proof. apply in_range_wb_spec. Qed.

Lemma wr_id d z : (forall t, d = DInt t -> 0 < bits t) -> fits d z = true -> wr d z = z.
Proof.
  destruct d as [|t|]; cbn; auto. intros Hb H. apply wrap_id; [apply Hb; reflexivity|].
  apply in_range_wb_spec, H.
Qed.

Lemma std_pos t : std t -> 0 < bits t.
Proof. unfold std. lia. Qed.

Lemma stdb_spec t : stdb t = true <-> std t.
Proof. unfold stdb, std. rewrite !orb_true_iff, !Z.eqb_eq. tauto. Qed.
