(* Lib/PyExt.v — hand-written meanings of the NumPy expressions that the fragment
   translator replaces by name (its `extern` maps).  Each is keyed by the exact source
   text of the expression it stands for; see tools/fragspecs.py. *)
From Coq Require Import ZArith List Bool.
From Verif Require Import Py.
Import ListNotations.
Open Scope Z_scope.

(* np.where(ind < 0, ind + shape, ind) on a 1-D integer array *)
Definition ext_where_neg (ind shape : pyv) : res pyv :=
  match ind, as_int shape with
  | VArr l, Some d => Ok (VArr (map (fun i => if i <? 0 then i + d else i) l))
  | VBArr l, Some _ => Ok (VBArr l)
  | _, _ => Raise TypeError
  end.

(* np.issubdtype(x.dtype, np.integer) and ((x >= dimension) | (x < -dimension)).any() *)
Definition ext_int_arr_oob (x dimension : pyv) : res pyv :=
  match x, as_int dimension with
  | VArr l, Some d => Ok (VBool (existsb (fun i => (i >=? d) || (i <? - d)) l))
  | VBArr _, Some _ => Ok (VBool false)
  | _, _ => Raise TypeError
  end.

(* x.dtype == np.bool_ and len(x) != dimension *)
Definition ext_bool_arr_len_ne (x dimension : pyv) : res pyv :=
  match x, as_int dimension with
  | VBArr l, Some d => Ok (VBool (negb (Z.of_nat (length l) =? d)))
  | VArr _, Some _ => Ok (VBool false)
  | _, _ => Raise TypeError
  end.
