(* Lib/PyIndex.v — hand-written meanings of the list/NumPy expressions that the indexing
   fragments (tools/frags/indexing.py, tools/sitegen/indexing.py -> Gen/S_indexing.v) replace by
   name.  Each is keyed by the exact source text of the expression it stands for.  Index tuples
   are VTuple; 1-D index arrays are VArr / VBArr.  No property content. *)
From Coq Require Import ZArith List Bool.
From Verif Require Import Py PySlice.
Import ListNotations.
Open Scope Z_scope.

(* [i for i, ind in enumerate(index) if ind is Ellipsis] *)
Fixpoint ellipsis_positions (k : Z) (l : list pyv) : list pyv :=
  match l with
  | [] => []
  | v :: r => (if is_ellipsis v then [VInt k] else []) ++ ellipsis_positions (k + 1) r
  end.
Definition ext_ellipsis_positions (index : pyv) : res pyv :=
  match index with VTuple l => Ok (VTuple (ellipsis_positions 0 l)) | _ => Raise TypeError end.

(* sum(i is None for i in index) *)
Definition ext_count_none (index : pyv) : res pyv :=
  match index with
  | VTuple l => Ok (VInt (Z.of_nat (length (filter is_none l))))
  | _ => Raise TypeError
  end.

(* index[:loc] + (slice(None, None, None),) * extra_dimensions + index[loc + 1:]
   (a tuple times a negative number is the empty tuple; loc is a position of index) *)
Definition ext_splice_full (index loc extra : pyv) : res pyv :=
  match index, loc, extra with
  | VTuple l, VInt p, VInt e =>
    Ok (VTuple (firstn (Z.to_nat p) l ++ repeat (VSlice VNone VNone VNone) (Z.to_nat e)
                ++ skipn (Z.to_nat (p + 1)) l))
  | _, _, _ => Raise TypeError
  end.

(* len(range(ind.start, ind.stop, ind.step)) *)
Definition ext_slice_len (ind : pyv) : res pyv :=
  match ind with
  | VSlice (VInt s) (VInt e) (VInt st) =>
    if st =? 0 then Raise ValueError else Ok (VInt (range_len s e st))
  | _ => Raise TypeError
  end.

(* hasattr(i, 'ndim') and i.ndim >= 1   — only arrays of the fragment are 1-D ndarrays *)
Definition ext_is_ndarray (i : pyv) : res pyv := Ok (VBool (isinst_array i)).
(* i.ndim *)
Definition ext_ndim (i : pyv) : res pyv :=
  if isinst_array i then Ok (VInt 1) else Raise OtherError.

(* [i for i in idx if i is not None] *)
Definition ext_not_none (idx : pyv) : res pyv :=
  match idx with
  | VTuple l => Ok (VTuple (filter (fun v => negb (is_none v)) l))
  | _ => Raise TypeError
  end.

(* truth value of a computed condition; an exception counts as false (callers that care about the
   exception inspect the result themselves) *)
Definition pv_bool (r : res pyv) : bool := match r with Ok v => truthy v | Raise _ => false end.
Definition pv_int (r : res pyv) : Z := match r with Ok (VInt z) => z | _ => 0 end.
