(* Lib/Py.v — a shallow embedding of the scalar fragment of Python that the
   fragment translator tools/py2v.py targets.  Dynamically typed values, an
   exception monad, Python's floored // and %, truthiness of and/or, chained
   comparisons.  No property content. *)
From Coq Require Import ZArith List Bool Lia.
Import ListNotations.
Open Scope Z_scope.

Inductive exc := ValueError | IndexError | TypeError | ZeroDivisionError
               | RuntimeError | NotImplementedError | OverflowError | OtherError.

Definition exc_eqb (a b : exc) : bool :=
  match a, b with
  | ValueError, ValueError | IndexError, IndexError | TypeError, TypeError
  | ZeroDivisionError, ZeroDivisionError | RuntimeError, RuntimeError
  | NotImplementedError, NotImplementedError | OverflowError, OverflowError
  | OtherError, OtherError => true
  | _, _ => false
  end.

Inductive res (A : Type) := Ok (a : A) | Raise (e : exc).
Arguments Ok {A} a.
Arguments Raise {A} e.

Definition bind {A B} (m : res A) (f : A -> res B) : res B :=
  match m with Ok a => f a | Raise e => Raise e end.

Notation "x <- m ;; k" := (bind m (fun x => k))
  (at level 61, m at next level, right associativity).
Notation "' p <- m ;; k" := (bind m (fun p => k))
  (at level 61, p pattern, m at next level, right associativity).

(* Python values of the fragment.  VArr is a 1-D integer array (list), VBArr a
   1-D boolean array; they are opaque to the scalar operators (TypeError). *)
Inductive pyv :=
| VNone
| VEllipsis
| VBool (b : bool)
| VInt (z : Z)
| VSlice (a b c : pyv)
| VTuple (l : list pyv)
| VArr (l : list Z)
| VBArr (l : list bool).

Definition as_int (v : pyv) : option Z :=
  match v with
  | VInt z => Some z
  | VBool b => Some (if b then 1 else 0)
  | _ => None
  end.

Definition truthy (v : pyv) : bool :=
  match v with
  | VNone => false
  | VEllipsis => true
  | VBool b => b
  | VInt z => negb (z =? 0)
  | VSlice _ _ _ => true
  | VTuple l => match l with [] => false | _ => true end
  | VArr l => match l with [] => false | _ => true end   (* only len-0/len-1 are legal; unused *)
  | VBArr l => match l with [] => false | _ => true end
  end.

Definition arith (f : Z -> Z -> res Z) (a b : pyv) : res pyv :=
  match as_int a, as_int b with
  | Some x, Some y => z <- f x y ;; Ok (VInt z)
  | _, _ => Raise TypeError
  end.

Definition py_add := arith (fun x y => Ok (x + y)).
Definition py_sub := arith (fun x y => Ok (x - y)).
Definition py_mul := arith (fun x y => Ok (x * y)).
Definition py_floordiv :=
  arith (fun x y => if y =? 0 then Raise ZeroDivisionError else Ok (x / y)).
Definition py_mod :=
  arith (fun x y => if y =? 0 then Raise ZeroDivisionError else Ok (x mod y)).
Definition py_neg (a : pyv) : res pyv :=
  match as_int a with Some x => Ok (VInt (- x)) | None => Raise TypeError end.
Definition py_abs (a : pyv) : res pyv :=
  match as_int a with Some x => Ok (VInt (Z.abs x)) | None => Raise TypeError end.
Definition py_not (a : pyv) : res pyv := Ok (VBool (negb (truthy a))).

Definition ordcmp (f : Z -> Z -> bool) (a b : pyv) : res pyv :=
  match as_int a, as_int b with
  | Some x, Some y => Ok (VBool (f x y))
  | _, _ => Raise TypeError
  end.
Definition py_lt := ordcmp Z.ltb.
Definition py_le := ordcmp Z.leb.
Definition py_gt := ordcmp Z.gtb.
Definition py_ge := ordcmp Z.geb.

(* == on the fragment: numeric equality on ints/bools, identity on None,
   False across kinds.  (Slices/tuples/arrays are never compared by the
   translated code; they yield TypeError here so that a new use is noticed.) *)
Definition py_eq (a b : pyv) : res pyv :=
  match as_int a, as_int b with
  | Some x, Some y => Ok (VBool (x =? y))
  | _, _ =>
    match a, b with
    | VNone, VNone => Ok (VBool true)
    | VNone, (VInt _ | VBool _) | (VInt _ | VBool _), VNone => Ok (VBool false)
    | _, _ => Raise TypeError
    end
  end.
Definition py_ne (a b : pyv) : res pyv :=
  r <- py_eq a b ;; Ok (VBool (negb (truthy r))).

Definition is_none (a : pyv) : bool := match a with VNone => true | _ => false end.
Definition py_is_none (a : pyv) : res pyv := Ok (VBool (is_none a)).
Definition py_is_not_none (a : pyv) : res pyv := Ok (VBool (negb (is_none a))).
Definition is_ellipsis (a : pyv) : bool := match a with VEllipsis => true | _ => false end.

Definition py_min2 (a b : pyv) : res pyv :=
  match as_int a, as_int b with
  | Some x, Some y => Ok (if y <? x then b else a)      (* min returns the first minimal argument *)
  | _, _ => Raise TypeError
  end.
Definition py_max2 (a b : pyv) : res pyv :=
  match as_int a, as_int b with
  | Some x, Some y => Ok (if x <? y then b else a)      (* max returns the first maximal argument *)
  | _, _ => Raise TypeError
  end.

Definition py_int (a : pyv) : res pyv :=
  match as_int a with Some x => Ok (VInt x) | None => Raise TypeError end.

Definition py_len (a : pyv) : res pyv :=
  match a with
  | VTuple l => Ok (VInt (Z.of_nat (length l)))
  | VArr l => Ok (VInt (Z.of_nat (length l)))
  | VBArr l => Ok (VInt (Z.of_nat (length l)))
  | _ => Raise TypeError
  end.

(* isinstance tests used by the translated code *)
Definition isinst_slice (a : pyv) : bool := match a with VSlice _ _ _ => true | _ => false end.
Definition isinst_integral (a : pyv) : bool :=
  match a with VInt _ | VBool _ => true | _ => false end.
Definition isinst_tuple (a : pyv) : bool := match a with VTuple _ => true | _ => false end.
Definition isinst_array (a : pyv) : bool := match a with VArr _ | VBArr _ => true | _ => false end.
(* collections.abc.Iterable on the fragment: tuples and arrays *)
Definition isinst_iterable (a : pyv) : bool :=
  match a with VTuple _ | VArr _ | VBArr _ => true | _ => false end.

(* math.isnan on the fragment: ints are never NaN; None raises TypeError. *)
Definition py_isnan (a : pyv) : res pyv :=
  match as_int a with Some _ => Ok (VBool false) | None => Raise TypeError end.

Definition attr_start (a : pyv) : res pyv :=
  match a with VSlice s _ _ => Ok s | _ => Raise OtherError end.
Definition attr_stop (a : pyv) : res pyv :=
  match a with VSlice _ s _ => Ok s | _ => Raise OtherError end.
Definition attr_step (a : pyv) : res pyv :=
  match a with VSlice _ _ s => Ok s | _ => Raise OtherError end.

(* tuple indexing with a non-negative constant *)
Definition py_item (a : pyv) (i : nat) : res pyv :=
  match a with
  | VTuple l => match nth_error l i with Some v => Ok v | None => Raise IndexError end
  | _ => Raise TypeError
  end.

(* `if c:` on an arbitrary value *)
Definition cond (c : pyv) : bool := truthy c.

Arguments Z.add : simpl never.
Arguments Z.sub : simpl never.
Arguments Z.mul : simpl never.
Arguments Z.div : simpl never.
Arguments Z.modulo : simpl never.
Arguments Z.ltb : simpl never.
Arguments Z.leb : simpl never.
Arguments Z.gtb : simpl never.
Arguments Z.geb : simpl never.
Arguments Z.eqb : simpl never.
Arguments Z.opp : simpl never.
Arguments Z.abs : simpl never.
