(* Lib/PyReduce.v — hand-written meanings of the non-scalar expressions inside the fragments of
   `SparseArray.reduce` / `COO._reduce_calc` extracted by tools/sitegen/reduce.py (each keyed there
   by the exact source text).  A NumPy ufunc is represented by a small integer code (the table
   UFUNC_CODES of tools/sitegen/reduce.py) and acts on Python ints.  No property content. *)
From Coq Require Import ZArith List Bool.
From Verif Require Import Py.
Import ListNotations.
Open Scope Z_scope.

Definition b2z (b : bool) : Z := if b then 1 else 0.
Definition nzb (z : Z) : bool := negb (z =? 0).

(* 0 add | 1 multiply | 2 minimum | 3 maximum | 4 logical_or | 5 logical_and | 6 bitwise_or
   | 7 bitwise_and | 8 bitwise_xor | 9 power *)
Definition ufunc_z (code : Z) : option (Z -> Z -> Z) :=
  match code with
  | 0 => Some Z.add | 1 => Some Z.mul | 2 => Some Z.min | 3 => Some Z.max
  | 4 => Some (fun a b => b2z (nzb a || nzb b))
  | 5 => Some (fun a b => b2z (nzb a && nzb b))
  | 6 => Some Z.lor | 7 => Some Z.land | 8 => Some Z.lxor | 9 => Some Z.pow
  | _ => None
  end.

(* the cast NumPy applies to the operands of the ufunc's inner loop: logical_* work on truth values *)
Definition ufunc_cast (code : Z) (a : Z) : Z :=
  if (code =? 4) || (code =? 5) then b2z (nzb a) else a.

(* method(a, b) on Python ints.  (np.power refuses negative integer exponents; the only use,
   `reduce_super_ufunc(fill, n_cols - counts)`, has a non-negative exponent; Z.pow gives 0 there.) *)
Definition ext_apply (method a b : pyv) : res pyv :=
  match method, as_int a, as_int b with
  | VInt c, Some x, Some y =>
    match ufunc_z c with
    | Some f => Ok (VInt (f x y))
    | None => Raise TypeError
    end
  | _, _, _ => Raise TypeError
  end.

(* dict.get(method) on a {ufunc: ufunc} table *)
Definition ext_table_get (table : list (Z * Z)) (method : pyv) : res pyv :=
  match method with
  | VInt c => match find (fun p => fst p =? c) table with
              | Some (_, s) => Ok (VInt s)
              | None => Ok VNone
              end
  | _ => Raise TypeError
  end.

(* ufunc.identity (None for minimum / maximum) *)
Definition ufunc_ident (code : Z) : option Z :=
  match code with
  | 0 => Some 0 | 1 => Some 1 | 4 => Some 0 | 5 => Some 1 | 6 => Some 0 | 7 => Some (-1) | 8 => Some 0
  | _ => None
  end.

(* method.identity as a Python value (None for minimum / maximum); also the value of
   method.reduce(np.empty((0,))) when it exists *)
Definition ext_identity (method : pyv) : res pyv :=
  match method with
  | VInt c => Ok (match ufunc_ident c with Some e => VInt e | None => VNone end)
  | _ => Raise TypeError
  end.

(* a dtype (code of tools/sitegen/reduce.py DTYPE_CODES) belongs to a set of dtype codes: the meaning of
   issubclass(d.type, <classes>) / np.issubdtype(d, <class>) once the classes are resolved *)
Definition ext_dtype_in (codes : list Z) (d : pyv) : res pyv :=
  match d with
  | VInt c => Ok (VBool (existsb (Z.eqb c) codes))
  | _ => Raise TypeError
  end.
