(* Lib/PyFill.v — support for the generated file Gen/S_fill.v (tools/sitegen/fill.py, tools/frags/fill.py):
   (1) hand-written meanings of the non-scalar expressions inside the sliced fragments of the fill
       guards (`extern` maps, keyed there by the exact source text), and
   (2) the record types of the generated fill-value call-site table.
   No property content.

   Conventions of the area: a sparse operand is represented by its fill value, an integer token
   `VInt t` (integers stand for themselves; -0.0, NaN, +inf, -inf are distinct opaque tokens, exactly
   the tokens tools/vlib.py:val_token produces) or `VBool b` (bool dtype); an operand without a
   `fill_value` attribute (ndarray, scalar) is `VNone`; a list of arrays is a `VTuple`. *)
From Coq Require Import ZArith List Bool String.
From Verif Require Import Py.
Import ListNotations.
Open Scope Z_scope.

(* ---------------------------------------------------------------- tokens *)
(* vlib.val_token(-0.0) = 2^70 + bit pattern 0x8000000000000000 *)
Definition NEGZERO : Z := 2 ^ 70 + 2 ^ 63.
Definition TOK_NAN : Z := 2 ^ 70 + 9221120237041090560.     (* 0x7ff8000000000000 *)
Definition TOK_PINF : Z := 2 ^ 70 + 9218868437227405312.    (* 0x7ff0000000000000 *)
Definition TOK_NINF : Z := 2 ^ 70 + 18442240474082181120.   (* 0xfff0000000000000 *)

(* the two IEEE zeros *)
Definition is_zero_tok (z : Z) : bool := (z =? 0) || (z =? NEGZERO).

(* `equivalent(a, b)` — strict: equality of bit patterns = equality of tokens
   `equivalent(a, b, loose=True)` — (a == b) | (isnan a & isnan b): identifies the two zeros; NaN is one token *)
Definition strict_eqb (a b : Z) : bool := a =? b.
Definition loose_eqb (a b : Z) : bool := (a =? b) || (is_zero_tok a && is_zero_tok b).

(* ---------------------------------------------------------------- externs *)
(* hasattr(arg, 'fill_value') *)
Definition ext_has_fill (arg : pyv) : res pyv := Ok (VBool (negb (is_none arg))).

(* equivalent(arg.fill_value, _zero_of_dtype(arg.dtype)) — strict *)
Definition ext_equiv_zero (arg : pyv) : res pyv :=
  match as_int arg with
  | Some z => Ok (VBool (strict_eqb z 0))
  | None => Raise OtherError            (* AttributeError: evaluated only after hasattr succeeded *)
  end.

(* equivalent(fv, arg.fill_value) — strict *)
Definition ext_equiv (fv arg : pyv) : res pyv :=
  match as_int fv, as_int arg with
  | Some x, Some y => Ok (VBool (strict_eqb x y))
  | _, _ => Raise OtherError
  end.

(* all(isinstance(s, SparseArray) for s in arrays) *)
Definition ext_all_sparse (arrays : pyv) : res pyv :=
  match arrays with
  | VTuple l => Ok (VBool (forallb (fun a => negb (is_none a)) l))
  | _ => Raise TypeError
  end.

(* arrays[0].fill_value *)
Definition ext_first_fill (arrays : pyv) : res pyv :=
  match arrays with
  | VTuple (a :: _) => Ok a
  | VTuple [] => Raise IndexError
  | _ => Raise TypeError
  end.

(* any(equivalent(fv, x.fill_value, loose=True) for fv in accept_fv) *)
Definition ext_any_loose (accept_fv x : pyv) : res pyv :=
  match accept_fv, as_int x with
  | VTuple l, Some f =>
      Ok (VBool (existsb (fun a => match as_int a with Some z => loose_eqb z f | None => false end) l))
  | _, _ => Raise TypeError
  end.

Fixpoint pyv_ints_eqb (a b : list pyv) : bool :=
  match a, b with
  | [], [] => true
  | x :: r, y :: s =>
      match as_int x, as_int y with Some p, Some q => (p =? q) && pyv_ints_eqb r s | _, _ => false end
  | _, _ => false
  end.

(* shape1 != shape2 on tuples of ints *)
Definition ext_shape_ne (a b : pyv) : res pyv :=
  match a, b with
  | VTuple x, VTuple y => Ok (VBool (negb (pyv_ints_eqb x y)))
  | _, _ => Raise TypeError
  end.

(* an explicit densification `self.todense()` (possibly wrapped by np.asarray / a builtin):
   the result is a dense object, tagged *)
Definition ext_densify (self : pyv) : res pyv := Ok (VTuple [VInt 1; self]).
Definition is_dense_result (r : res pyv) : bool :=
  match r with Ok (VTuple [VInt 1; _]) => true | _ => false end.

(* ---------------------------------------------------------------- the generated table's types *)
Inductive guard_kind := GZero | GConsistent | GAccept.
(* g_args: source texts of the guard's arguments in the caller's terms ("*ops" for a starred argument,
   "?p" for a helper parameter that the call does not bind); g_via: "" when the guard is called by the
   function itself, otherwise the helper whose dominating guard it is *)
Record guard := mkGuard { g_kind : guard_kind; g_args : list string; g_via : string }.

Inductive path_kind := PReturn | PRaise | PFall | PNotImpl.   (* PNotImpl: `return NotImplemented` *)
(* one way out of the function: its kind, the `if` conditions on the way (source text), the guards
   certainly executed before it, and the returned expression / raised exception (source text) *)
Record path := mkPath { p_kind : path_kind; p_conds : list string; p_guards : list guard; p_text : string }.

Inductive fill_kind :=
| FAbsent                (* no fill_value argument: the constructor uses zero *)
| FOperand               (* <operand>.fill_value *)
| FConvert               (* conversion constructor: the fill travels with the converted array *)
| FDense                 (* built from a dense / scipy object, which has no fill value *)
| FConst (z : Z)         (* literal *)
| FParam                 (* the function's own fill_value-like parameter *)
| FLocal.                (* any other computed expression *)
Record ctor := mkCtor { c_class : string; c_fill : fill_kind; c_src : string }.

Record site := mkSite {
  s_op : string; s_public : bool; s_params : list string;
  s_paths : list path; s_ctors : list ctor; s_delegates : list string; s_returns_self : bool }.
