Lib/Py.vo Lib/Py.glob Lib/Py.v.beautified Lib/Py.required_vo: Lib/Py.v 
Lib/Py.vio: Lib/Py.v 
Lib/Py.vos Lib/Py.vok Lib/Py.required_vos: Lib/Py.v 
Lib/PyExt.vo Lib/PyExt.glob Lib/PyExt.v.beautified Lib/PyExt.required_vo: Lib/PyExt.v Lib/Py.vo
Lib/PyExt.vio: Lib/PyExt.v Lib/Py.vio
Lib/PyExt.vos Lib/PyExt.vok Lib/PyExt.required_vos: Lib/PyExt.v Lib/Py.vos
Gen/G_slicing.vo Gen/G_slicing.glob Gen/G_slicing.v.beautified Gen/G_slicing.required_vo: Gen/G_slicing.v Lib/Py.vo Lib/PyExt.vo
Gen/G_slicing.vio: Gen/G_slicing.v Lib/Py.vio Lib/PyExt.vio
Gen/G_slicing.vos Gen/G_slicing.vok Gen/G_slicing.required_vos: Gen/G_slicing.v Lib/Py.vos Lib/PyExt.vos
Spec/PySlice.vo Spec/PySlice.glob Spec/PySlice.v.beautified Spec/PySlice.required_vo: Spec/PySlice.v 
Spec/PySlice.vio: Spec/PySlice.v 
Spec/PySlice.vos Spec/PySlice.vok Spec/PySlice.required_vos: Spec/PySlice.v 
Model/Slicing.vo Model/Slicing.glob Model/Slicing.v.beautified Model/Slicing.required_vo: Model/Slicing.v Lib/Py.vo Lib/PyExt.vo Gen/G_slicing.vo Spec/PySlice.vo
Model/Slicing.vio: Model/Slicing.v Lib/Py.vio Lib/PyExt.vio Gen/G_slicing.vio Spec/PySlice.vio
Model/Slicing.vos Model/Slicing.vok Model/Slicing.required_vos: Model/Slicing.v Lib/Py.vos Lib/PyExt.vos Gen/G_slicing.vos Spec/PySlice.vos
Proofs/SlicingP.vo Proofs/SlicingP.glob Proofs/SlicingP.v.beautified Proofs/SlicingP.required_vo: Proofs/SlicingP.v Lib/Py.vo Lib/PyExt.vo Gen/G_slicing.vo Spec/PySlice.vo Model/Slicing.vo
Proofs/SlicingP.vio: Proofs/SlicingP.v Lib/Py.vio Lib/PyExt.vio Gen/G_slicing.vio Spec/PySlice.vio Model/Slicing.vio
Proofs/SlicingP.vos Proofs/SlicingP.vok Proofs/SlicingP.required_vos: Proofs/SlicingP.v Lib/Py.vos Lib/PyExt.vos Gen/G_slicing.vos Spec/PySlice.vos Model/Slicing.vos
Corr/Judge.vo Corr/Judge.glob Corr/Judge.v.beautified Corr/Judge.required_vo: Corr/Judge.v 
Corr/Judge.vio: Corr/Judge.v 
Corr/Judge.vos Corr/Judge.vok Corr/Judge.required_vos: Corr/Judge.v 
Corr/C02Judge.vo Corr/C02Judge.glob Corr/C02Judge.v.beautified Corr/C02Judge.required_vo: Corr/C02Judge.v Lib/Py.vo Lib/PyExt.vo Gen/G_slicing.vo Spec/PySlice.vo Model/Slicing.vo Corr/Judge.vo
Corr/C02Judge.vio: Corr/C02Judge.v Lib/Py.vio Lib/PyExt.vio Gen/G_slicing.vio Spec/PySlice.vio Model/Slicing.vio Corr/Judge.vio
Corr/C02Judge.vos Corr/C02Judge.vok Corr/C02Judge.required_vos: Corr/C02Judge.v Lib/Py.vos Lib/PyExt.vos Gen/G_slicing.vos Spec/PySlice.vos Model/Slicing.vos Corr/Judge.vos
Props/C02.vo Props/C02.glob Props/C02.v.beautified Props/C02.required_vo: Props/C02.v Lib/Py.vo Lib/PyExt.vo Gen/G_slicing.vo Spec/PySlice.vo Model/Slicing.vo Proofs/SlicingP.vo
Props/C02.vio: Props/C02.v Lib/Py.vio Lib/PyExt.vio Gen/G_slicing.vio Spec/PySlice.vio Model/Slicing.vio Proofs/SlicingP.vio
Props/C02.vos Props/C02.vok Props/C02.required_vos: Props/C02.v Lib/Py.vos Lib/PyExt.vos Gen/G_slicing.vos Spec/PySlice.vos Model/Slicing.vos Proofs/SlicingP.vos
