(* Props/C02.v — property-level statements for C02 (indexing).  Only statements, each closed
   by [exact] of a lemma proved elsewhere, with Print Assumptions beneath. *)
From Coq Require Import ZArith List.
From Verif Require Import Py PyExt G_slicing PySlice Slicing SlicingP.
Import ListNotations.
Open Scope Z_scope.

(* Full statement (for every slice, the code's normalisation selects what Python selects):
     forall a b c dim, 0 <= dim -> c <> Some 0 ->
       selects (normalize_slice (VSlice (oz a) (oz b) (oz c)) dim) = slice_selects a b c dim.
   It is FALSE of the code as it stands (finding D1), see slice_norm_refuted; the proved part is
   slice_norm_partial, which excludes exactly a user-given stop in [step, -1] with step < 0. *)
Theorem slice_norm_partial :
  forall (a b c : option Z) (dim : Z),
    0 <= dim -> c <> Some 0 -> d1_clause b c = true ->
    selects (normalize_slice (VSlice (oz a) (oz b) (oz c)) dim) = slice_selects a b c dim.
Proof. exact slice_norm_partial_proof. Qed.
Print Assumptions slice_norm_partial.

Theorem slice_norm_refuted :
  exists (a b c : option Z) (dim : Z),
    0 <= dim /\ c <> Some 0 /\
    selects (normalize_slice (VSlice (oz a) (oz b) (oz c)) dim) <> slice_selects a b c dim.
Proof. exact slice_norm_refuted_proof. Qed.
Print Assumptions slice_norm_refuted.
