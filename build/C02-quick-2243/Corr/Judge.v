(* Corr/Judge.v — running a judge over generated cases inside Coq (vm_compute). *)
From Coq Require Import ZArith List.
Import ListNotations.
Open Scope Z_scope.

(* [(index, code)] of the cases whose verdict code is non-zero *)
Definition run_judge {A} (judge : A -> Z) (cases : list A) : list (Z * Z) :=
  let fix go (i : Z) (l : list A) :=
    match l with
    | [] => []
    | c :: r => let v := judge c in
                if v =? 0 then go (i + 1) r else (i, v) :: go (i + 1) r
    end in go 0 cases.

(* histogram support: [(index, tag)] for every case *)
Definition run_tags {A} (tag : A -> Z) (cases : list A) : list Z := map tag cases.

Definition list_eqb {A} (eqb : A -> A -> bool) : list A -> list A -> bool :=
  fix go l1 l2 := match l1, l2 with
  | [], [] => true
  | a :: r1, b :: r2 => andb (eqb a b) (go r1 r2)
  | _, _ => false end.

Definition opt_eqb {A} (eqb : A -> A -> bool) (a b : option A) : bool :=
  match a, b with
  | None, None => true
  | Some x, Some y => eqb x y
  | _, _ => false end.

Definition zl_eqb := list_eqb Z.eqb.
Definition zll_eqb := list_eqb zl_eqb.
