From Coq Require Import ZArith List.
From Verif Require Import Judge C02Judge.
Import ListNotations.
Open Scope Z_scope.
Set Printing Width 100000.
Set Printing Depth 100000.

Definition cases : list slice_case := [
((Some 1), (Some 2), None, 0, (Some (0, 0, 1)), (Some []));
((Some (-3)), (Some (-2)), (Some 1), 5, (Some (2, 3, 1)), (Some [2]));
(None, (Some 4), (Some 7), 3, (Some (0, 3, 7)), (Some [0]));
((Some 1), (Some (-3)), (Some (-2)), 5, (Some (2, 2, (-2))), (Some []));
((Some (-3)), (Some 2), (Some (-3)), 2, (Some (2, 2, (-3))), (Some []));
((Some 3), (Some (-4)), (Some 7), 3, (Some ((-1), (-1), 7)), (Some []));
((Some 0), (Some (-3)), (Some (-1)), 5, (Some (2, 2, (-1))), (Some []));
((Some (-3)), (Some (-1)), (Some 1), 3, (Some (0, 2, 1)), (Some [0; 1]));
((Some 6), (Some 2), (Some (-2)), 5, (Some (4, 2, (-2))), (Some [4]));
((Some (-6)), (Some 1), (Some 3), 5, (Some (0, 1, 3)), (Some [0]));
((Some (-2)), (Some (-2)), (Some 3), 1, (Some ((-1), (-1), 3)), (Some []));
((Some (-4)), (Some 7), (Some 1), 5, (Some (1, 5, 1)), (Some [1; 2; 3; 4]));
((Some 3), (Some (-1)), (Some 3), 2, (Some (1, 1, 3)), (Some []));
((Some 2), (Some 0), (Some 2), 0, (Some (0, 0, 2)), (Some []));
((Some (-3)), (Some 4), (Some 1), 3, (Some (0, 3, 1)), (Some [0; 1; 2]));
((Some (-1)), None, (Some (-1)), 0, (Some ((-1), (-1), (-1))), (Some []));
((Some (-1)), (Some 4), (Some (-7)), 3, (Some (4, 4, (-7))), (Some []));
((Some (-2)), (Some (-4)), (Some (-2)), 2, (Some (0, (-1), (-2))), (Some [0]));
((Some (-3)), (Some (-4)), (Some 0), 2, (Some ((-1), (-1), 0)), None);
((Some 4), (Some (-7)), (Some 7), 5, (Some ((-2), (-2), 7)), (Some []));
((Some (-6)), (Some (-7)), (Some 7), 5, (Some ((-2), (-2), 7)), (Some []));
((Some 2), (Some 2), (Some 1), 3, (Some (2, 2, 1)), (Some []));
((Some (-4)), (Some (-3)), (Some (-2)), 5, (Some (2, 2, (-2))), (Some []));
((Some 3), (Some (-1)), (Some 1), 3, (Some (2, 2, 1)), (Some []));
((Some (-3)), (Some 2), None, 5, (Some (2, 2, 1)), (Some []));
((Some (-4)), (Some (-5)), (Some (-1)), 5, (Some (1, 0, (-1))), (Some [1]));
((Some 1), (Some 0), (Some (-1)), 0, (Some (0, 0, (-1))), (Some []));
((Some 0), (Some 2), (Some 2), 1, (Some (0, 1, 2)), (Some [0]));
((Some (-3)), None, (Some 3), 5, (Some (2, 5, 3)), (Some [2]));
((Some 1), (Some (-5)), (Some (-2)), 5, (Some (1, 0, (-2))), (Some [1]));
((Some (-1)), (Some (-2)), (Some (-1)), 1, (Some (0, (-1), (-1))), (Some [0]));
(None, (Some (-3)), (Some 2), 5, (Some (0, 2, 2)), (Some [0]));
((Some 1), (Some 3), (Some (-7)), 2, (Some (3, 3, (-7))), (Some []));
((Some (-3)), (Some (-5)), (Some 2), 3, (Some ((-2), (-2), 2)), (Some []));
((Some (-3)), (Some 6), (Some (-2)), 5, (Some (6, 6, (-2))), (Some []));
((Some 1), (Some (-6)), (Some 3), 5, (Some ((-1), (-1), 3)), (Some []));
((Some 5), (Some 4), (Some 2), 3, (Some (3, 3, 2)), (Some []));
((Some (-5)), (Some (-5)), None, 5, (Some (0, 0, 1)), (Some []));
((Some 1), (Some 1), (Some (-2)), 5, (Some (1, 1, (-2))), (Some []));
((Some 0), (Some 0), (Some 3), 5, (Some (0, 0, 3)), (Some []));
((Some 4), (Some (-4)), (Some 3), 2, (Some ((-2), (-2), 3)), (Some []));
((Some (-1)), (Some 1), (Some (-3)), 0, (Some (1, 1, (-3))), (Some []));
((Some 4), (Some (-6)), (Some 2), 5, (Some ((-1), (-1), 2)), (Some []));
(None, None, (Some 1), 0, (Some (0, 0, 1)), (Some []));
((Some (-1)), (Some 4), None, 2, (Some (1, 2, 1)), (Some [1]));
((Some (-4)), (Some (-1)), (Some 2), 5, (Some (1, 4, 2)), (Some [1; 3]));
((Some (-1)), (Some 3), (Some 1), 5, (Some (3, 3, 1)), (Some []));
(None, (Some 2), (Some 7), 3, (Some (0, 2, 7)), (Some [0]));
((Some (-2)), (Some (-3)), (Some (-3)), 1, (Some ((-1), (-1), (-3))), (Some [0]));
((Some (-5)), (Some 4), (Some 2), 5, (Some (0, 4, 2)), (Some [0; 2]));
((Some (-5)), (Some (-4)), (Some (-2)), 3, (Some ((-1), (-1), (-2))), (Some []));
((Some (-2)), None, None, 3, (Some (1, 3, 1)), (Some [1; 2]));
((Some 5), (Some (-4)), (Some 2), 3, (Some ((-1), (-1), 2)), (Some []));
((Some 3), (Some 0), (Some (-3)), 3, (Some (2, 0, (-3))), (Some [2]));
((Some 3), (Some 0), (Some 3), 3, (Some (0, 0, 3)), (Some []));
((Some (-2)), (Some (-1)), (Some 1), 2, (Some (0, 1, 1)), (Some [0]));
((Some 3), (Some (-3)), None, 5, (Some (2, 2, 1)), (Some []));
(None, (Some (-1)), (Some 3), 2, (Some (0, 1, 3)), (Some [0]));
((Some 4), (Some 0), (Some (-3)), 2, (Some (1, 0, (-3))), (Some [1]));
((Some (-4)), (Some 5), (Some 1), 3, (Some (0, 3, 1)), (Some [0; 1; 2]));
((Some 7), (Some 5), (Some (-1)), 5, (Some (5, 5, (-1))), (Some []));
((Some 0), (Some (-5)), (Some (-2)), 3, (Some (0, (-1), (-2))), (Some [0]));
((Some (-3)), (Some (-3)), (Some 7), 1, (Some ((-2), (-2), 7)), (Some []));
((Some 1), (Some 2), (Some 7), 0, (Some (0, 0, 7)), (Some []));
((Some (-5)), (Some (-6)), (Some 3), 5, (Some ((-1), (-1), 3)), (Some []));
((Some 5), (Some 4), (Some 3), 3, (Some (3, 3, 3)), (Some []));
((Some (-4)), (Some 0), (Some 7), 2, (Some (0, 0, 7)), (Some []));
((Some (-5)), (Some 2), (Some 0), 5, (Some (2, 2, 0)), None);
((Some 1), (Some (-3)), (Some 1), 5, (Some (1, 2, 1)), (Some [1]));
((Some 7), (Some (-5)), (Some (-1)), 5, (Some (4, 0, (-1))), (Some [4; 3; 2; 1]));
((Some (-1)), (Some 2), (Some (-7)), 1, (Some (2, 2, (-7))), (Some []));
((Some 4), (Some 7), (Some (-3)), 5, (Some (7, 7, (-3))), (Some []));
((Some 6), (Some (-4)), (Some 3), 5, (Some (1, 1, 3)), (Some []));
((Some (-3)), (Some (-1)), None, 2, (Some (0, 1, 1)), (Some [0]));
((Some 1), (Some (-2)), (Some 0), 3, (Some (1, 1, 0)), None);
((Some 5), (Some (-2)), (Some (-7)), 3, (Some (2, (-1), (-7))), (Some [2]));
((Some 1), (Some 1), (Some (-7)), 0, (Some (1, 1, (-7))), (Some []));
((Some 1), (Some 5), (Some 1), 5, (Some (1, 5, 1)), (Some [1; 2; 3; 4]));
((Some (-6)), (Some (-3)), (Some 0), 5, (Some (2, 2, 0)), None);
((Some 3), (Some 2), (Some (-3)), 3, (Some (2, 2, (-3))), (Some []));
((Some (-7)), (Some 7), (Some 0), 5, (Some (7, 7, 0)), None);
(None, (Some (-2)), (Some (-1)), 1, (Some (0, (-1), (-1))), (Some [0]));
((Some (-6)), (Some 1), (Some (-3)), 5, (Some (1, 1, (-3))), (Some []));
((Some (-1)), (Some 1), (Some (-1)), 0, (Some (1, 1, (-1))), (Some []));
((Some 1), (Some (-1)), (Some (-1)), 0, (Some ((-1), (-1), (-1))), (Some []));
((Some 1), (Some (-6)), (Some 1), 5, (Some ((-1), (-1), 1)), (Some []));
((Some 2), (Some (-7)), (Some (-3)), 5, (Some (2, (-1), (-3))), (Some [2]));
(None, (Some 3), (Some (-3)), 2, (Some (3, 3, (-3))), (Some []));
((Some 2), (Some 4), None, 5, (Some (2, 4, 1)), (Some [2; 3]));
((Some (-1)), (Some (-1)), (Some 3), 3, (Some (2, 2, 3)), (Some []));
((Some 2), (Some (-2)), (Some 2), 1, (Some ((-1), (-1), 2)), (Some []));
((Some 6), (Some (-3)), (Some (-1)), 5, (Some (4, 2, (-1))), (Some [4; 3]));
((Some (-2)), (Some 1), (Some (-7)), 5, (Some (3, 1, (-7))), (Some [3]));
((Some 0), (Some 5), (Some 0), 3, (Some (5, 5, 0)), None);
((Some 0), (Some 4), (Some (-3)), 2, (Some (4, 4, (-3))), (Some []));
((Some 3), (Some 0), None, 3, (Some (0, 0, 1)), (Some []));
((Some (-5)), (Some 1), (Some (-2)), 5, (Some (1, 1, (-2))), (Some []));
((Some 2), (Some 2), (Some 0), 1, (Some (2, 2, 0)), None);
((Some (-3)), (Some 1), (Some 2), 1, (Some (0, 1, 2)), (Some [0]));
((Some 6), (Some (-2)), (Some 1), 5, (Some (3, 3, 1)), (Some []))].
Eval vm_compute in (run_judge judge_slice cases).
